#!/bin/bash
# accept_seeded.sh <worktree> <seeded-id> <property> <caught_by> <needs>: archive a confirmed sub-agent change under seeded/<id>/ and only then
# remove its scratch worktree (fails safe: nothing is removed unless patch.diff arrived in the archive).
set -e
wt=$(realpath "$1"); sid=$2
[ -s "$wt/patch.diff" ] || { echo "no patch.diff in $wt"; exit 2; }
python3 /verif/tools/keep_seeded.py "$wt" "$sid" "$3" "$4" "$5"
[ -s "/verif/seeded/$sid/patch.diff" ] && [ -s "/verif/seeded/$sid/meta.json" ] || { echo "archive incomplete, worktree kept"; exit 2; }
git -C /repo worktree remove --force "$wt" && git -C /repo worktree prune
echo "accepted $sid, removed $wt"

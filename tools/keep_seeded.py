#!/usr/bin/env python3
"""keep_seeded.py <worktree> <seeded-id> <property> <caught_by> <needs...>  — copy patch/demo/notes of a confirmed seeded change into /verif/seeded/<id>/ with meta.json"""
import json, os, shutil, sys
wt, sid, prop, caught = sys.argv[1:5]
needs = " ".join(sys.argv[5:])
d = os.path.join("/verif/seeded", sid)
os.makedirs(d, exist_ok=True)
shutil.copy(os.path.join(wt, "patch.diff"), d)
for f in ("demo/demo.c", "demo/run.sh", "NOTES.md"):
    p = os.path.join(wt, f)
    if os.path.exists(p):
        os.makedirs(os.path.join(d, os.path.dirname(f)), exist_ok=True)
        shutil.copy(p, os.path.join(d, f))
for extra in os.listdir(os.path.join(wt, "demo")) if os.path.isdir(os.path.join(wt, "demo")) else []:
    p = os.path.join(wt, "demo", extra)
    if os.path.isfile(p) and os.path.getsize(p) < 200000 and not os.access(p, os.X_OK) or extra.endswith(".sh"):
        shutil.copy(p, os.path.join(d, "demo", extra))
meta = {"property": prop, "origin": "independent sub-agent given only the property text and a scratch worktree", "needs_to_manifest": needs,
        "confirmed": "applied in a scratch worktree: builds, the unedited ctest suite passes (28/28), demo/run.sh exits non-zero with the change and 0 without it",
        "ran": ["cmake -G Ninja -S . -B _build && cmake --build _build && ctest --test-dir _build -j4", "sh demo/run.sh (with and without the change)", "tools/try_seeded.sh seeded/%s/patch.diff %s" % (sid, prop)],
        "caught_by": caught}
json.dump(meta, open(os.path.join(d, "meta.json"), "w"), indent=1)
print("kept", d)

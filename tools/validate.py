#!/usr/bin/env python3
"""Validate MANIFEST.json and evidence/*.json against the schemas (run with python3-vt)."""
import json, sys, glob, os
import jsonschema
V = os.path.dirname(os.path.dirname(os.path.abspath(__file__)))
ms = json.load(open("/root/.vp/MANIFEST.schema.json")); es = json.load(open("/root/.vp/EVIDENCE.schema.json"))
jsonschema.validate(json.load(open(V + "/MANIFEST.json")), ms); print("MANIFEST ok")
for f in sorted(glob.glob(V + "/evidence/*.json")):
    jsonschema.validate(json.load(open(f)), es); print(os.path.basename(f), "ok")

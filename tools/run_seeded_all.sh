#!/bin/bash
# run_seeded_all.sh [tier] : for every seeded/<id>/patch.diff apply it to /repo, run the quick check of its property, revert; prints one line per seeded change.
TIER=${1:-quick}
cd /verif
for d in seeded/*/; do
  id=$(basename "$d"); prop=$(python3 -c "import json;print(json.load(open('$d/meta.json'))['property'])")
  out=$(TIER=$TIER LINES_MAX=2 tools/try_seeded.sh "$d/patch.diff" "$prop" 2>&1); rc=$?
  echo "$id $prop exit=$rc $(echo "$out" | grep -m1 '^  key=' | cut -c1-140)"
done

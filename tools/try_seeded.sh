#!/bin/bash
# try_seeded.sh <patch.diff> <ID> [<ID>...] : apply a seeded change to /repo, run the quick checks, undo the change.
# Evidence and replays of these runs go to a scratch directory (never into /verif/evidence).
set -u
patch=$(realpath "$1"); shift
if [ -n "$(git -C /repo status --porcelain --untracked-files=no)" ]; then echo "/repo has uncommitted changes"; exit 2; fi
scratch=$(mktemp -d /tmp/vf-seeded-XXXXXX)
git -C /repo apply "$patch" || { echo "patch does not apply"; exit 2; }
rc_all=0
for id in "$@"; do
  VERIF_EVIDENCE_DIR=$scratch VERIF_REPLAY_DIR=$scratch /verif/bin/check "$id" --tier "${TIER:-quick}" > "$scratch/$id.out" 2>&1; rc=$?
  echo "== $id exit=$rc"; grep -E "^  key=|^VIOLATION|^KNOWN|INCONCLUSIVE|HARNESS" "$scratch/$id.out" | cut -c1-260 | sort -u | head -${LINES_MAX:-8}
  tail -1 "$scratch/$id.out" | cut -c1-200
  [ $rc -ne 0 ] && rc_all=$rc
done
git -C /repo checkout -- .
rm -rf "$scratch"
exit $rc_all

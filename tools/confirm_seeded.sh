#!/bin/sh
# confirm_seeded.sh <worktree>: confirm a sub-agent's change myself: with the change the tree builds, the unedited
# ctest suite passes and demo/run.sh fails; without the change demo/run.sh passes.  Prints one verdict line.
wt=$(realpath "$1")
cd "$wt" || exit 2
[ -s patch.diff ] || { echo "CONFIRM $wt: no patch.diff"; exit 2; }
git diff --quiet -- tests && [ -z "$(git status --short tests)" ] || { echo "CONFIRM $wt: tests/ edited"; exit 1; }
b() { cmake -G Ninja -S . -B _build >/dev/null 2>&1 && cmake --build _build >/dev/null 2>&1; }
b || { echo "CONFIRM $wt: build fails with change"; exit 1; }
ctest --test-dir _build -j8 --timeout 900 >_ctest.log 2>&1; ct=$?
sh demo/run.sh >_demo_with.log 2>&1; dw=$?
git diff -- src > _cur.diff; git apply -R _cur.diff || { echo "CONFIRM $wt: reverse apply failed"; exit 2; }
b; sh demo/run.sh >_demo_without.log 2>&1; dwo=$?
git apply _cur.diff; b
echo "CONFIRM $wt: ctest_exit=$ct ($(grep -E 'tests passed' _ctest.log)) demo_with=$dw demo_without=$dwo"
[ $ct = 0 ] && [ $dw != 0 ] && [ $dwo = 0 ]

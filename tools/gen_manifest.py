#!/usr/bin/env python3
"""Regenerate /verif/MANIFEST.json from the table below (kept in one place so it stays valid)."""
import json, os, sys

VERIF = os.path.dirname(os.path.dirname(os.path.abspath(__file__)))

CHECKS = {
 "C12": dict(cat="exploration", ref="§3 C12-C14",
    technique="runtime reference-model monitor (sorted map) over exhaustive small + random op histories, ASan/UBSan build",
    text="Real PTree driven next to a reference sorted map; after every operation return values/nnodes, and at the end of every history "
         "(all op sequences over 3-5 keys to length 6-8, all insertion permutations of 7-9 keys x every removal, random adversarial runs to 1e5 nodes) "
         "lookup of every key, full foreach identity/order, early-stopped foreach at every position and shape-unchanged-afterwards are compared. "
         "Exploration is the right level: the property is a for-all-histories statement that an executable model decides per history.",
    note="Trusts the reference map in harness/tree_drv.c and ASan/UBSan; sampled beyond the exhaustive bounds."),
 "C13": dict(cat="exploration", ref="§3 C12-C14",
    technique="runtime shape monitor: comparator-trace shape reconstruction + AVL height check + exact red-black colourability DP",
    text="After operations of the same histories as C12 the tree shape is reconstructed through the public API (comparator records root-to-key paths); "
         "AVL: every node's subtree heights differ by <=1; RB: dynamic programme over the shape decides whether any valid colouring exists; depth bounds checked.",
    note="Shape reconstruction assumes p_tree_lookup walks the stored links; histories sampled beyond the exhaustive bounds."),
 "C14": dict(cat="exploration", ref="§3 C12-C14",
    technique="runtime ownership monitor: per-object state + notifier log compared with model prediction after every op, ASan",
    text="Each key/value is a heap object with a live/dead state; destroy notifiers log what each operation destroys and the set must equal the model's "
         "prediction (replace: old pair, remove: that pair, clear/free: the rest; never a stored pair, never twice); comparator rejects dead objects; "
         "without notifiers objects must stay intact. Removal classes (0/1/2 children x depth) are counted and must all be exercised.",
    note="Trusts the harness model; quarantine of 8192 dead objects backs the double-destroy detection, ASan beyond that."),
 "C11": dict(cat="exploration", ref="§3 C11",
    technique="differential runtime oracle: hashlib / independent GOST reference vs PCryptoHash over generated chunkings and call sequences, ASan build; 4 GiB single updates",
    text="Every read of a generated call sequence (all lengths 0..3*block+8, every two-way split up to 2*block+8, random update/reset/read/get_digest sequences, "
         "single updates of 2^32+5 bytes) is compared with the standard digest; hex form, length, repeatability and ignored-after-read are part of the comparison.",
    note="Trusts hashlib and lib/vf/gost_ref.py (self-tested on published vectors); GOST at 4 GiB is differential only."),
 "C15": dict(cat="exploration", ref="§3 C15",
    technique="runtime reference-model monitor (identity map / sequence) over random histories with adversarial pointer bit patterns, ASan+UBSan",
    text="PHashTable and PList driven next to array models; after every op lookups are compared, periodically the whole content (keys/values/lookup_by_value multisets, list walk); "
         "keys from INT_MAX-adjacent, negative, bucket-colliding, NULL, all-ones classes; UBSan/ASan abort = undefined behaviour for some pointer value.",
    note="Trusts the harness models; UB freedom only for executed inputs."),
 "C17": dict(cat="exploration", ref="§3 C17",
    technique="differential runtime oracle against the platform's inet_pton/inet_ntop/getaddrinfo on generated texts and native structures; exact-size heap buffers under ASan",
    text="Generated address texts (structured IPv6 forms, scopes, mutations, boundary IPv4), random native structures with every buffer length 0..size+8 in both directions, "
         "and all 65536 ports: creation success, every getter, any/loopback, native packing and both round trips are compared with the platform view; ASan catches accesses beyond short buffers.",
    note="Platform libc is the reference by definition of the property; far out-of-bounds accesses are outside ASan's red zones."),
 "C16": dict(cat="exploration", ref="§3 C16",
    technique="runtime robustness oracle under ASan/UBSan on mutated/random/libFuzzer inputs + grammar-generated files compared with their generating model",
    text="Robustness: generated, hand-crafted, mutated and random byte files (thorough: libFuzzer with coverage feedback) are parsed under ASan+UBSan and the object-consistency oracle "
         "(every listed section has a key, every listed key exists with a value, defaults for missing keys, termination). Grammar: files derived from the documented format together with the model they were "
         "derived from; sections, keys, strings and int/double/boolean/list getters must equal the model.",
    note="Generator stays inside what pinifile.h documents (listed in evidence assumptions); double getter compared with 1e-12 relative tolerance."),
 "C08": dict(cat="exploration", ref="§3 C08",
    technique="runtime reference-model monitor (FIFO byte queue) after every call + offline exactly-once/order/atomicity checker over producer/consumer logs; ASan and TSan builds",
    text="Sequential: every write/read/clear/space query on capacities 1..9000 through several handles is compared with a reference ring after the call (return value, bytes, used+free, "
         "sentinels beyond the count, header words and zero tail of the segment via an independent mapping). Concurrent: threads and forked processes exchange fixed-size checksummed records; "
         "any torn record, loss, duplicate or per-producer reorder is a violation; TSan watches the threaded runs.",
    note="Known finding (KNOWN_FINDINGS.txt): handle opened with a smaller size argument. Wild writes far outside the segment are not observable."),
 "C18": dict(cat="fault_enumeration", ref="§3 C18",
    technique="exhaustive k-th allocation failpoint (once / sticky) through the PMemVTable over per-module scenarios in forked children; tracking allocator + ASan/UBSan + scenario self-checks",
    text="For each of 23 module scenarios the number N of allocations is counted in a clean child and then EVERY k in 1..N+1 is failed (once; thorough also sticky) in its own forked child under ASan+UBSan; "
         "oracles: normal exit, no sanitizer report, no tracked block alive after the caller freed everything and the library shut down, pre-existing containers/objects unchanged, no double/foreign free. "
         "General rwlock / sim atomics constructors are covered by the asan-simgen variant. Fault enumeration is the right level: the quantifier is a finite fault index per scenario.",
    note="Only allocations that go through the PMemVTable are failed; scenarios are representative sequences, not all entry points in all states."),
 "C19": dict(cat="fault_enumeration", ref="§3 C19",
    technique="real signal storms (handler without SA_RESTART) around blocked calls + link-time (--wrap) EINTR injection at every k-th invocation of each blocking libc call, outcome oracles",
    text="Blocked p_uthread_sleep / semaphore acquire / shm lock / blocking accept and receive run under SIGUSR1 storms and must keep their outcome (sleep >= requested and 0; acquire only after the release; "
         "right bytes); EINTR is injected at call k (bursts 1..n) of clock_nanosleep, sem_wait, sem_open, shm_open, poll, connect, accept, recv, send, recvfrom, sendto and the same oracles plus exact semaphore "
         "counter accounting (raw handle on the platform key) are applied; a case only counts when its signal/injection actually fired.",
    note="Injection obeys each call's real contract (clock_nanosleep returns the error number). Finite storms only."),
 "C20": dict(cat="exploration", ref="§3 C20",
    technique="runtime resource monitor: tracking allocator (PMemVTable) + /proc/self/fd + /proc/self/maps + /dev/shm name probes + --wrap descriptor life-cycle table, compared before/after create-then-free sequences",
    text="27 create-use-free sequences over all modules (successful and failing exits, multi-handle IPC with equal/larger/smaller/zero sizes, threads, TLS) and random concatenations of them; after each repetition "
         "the process must hold no new library allocation (sites reported), no new descriptor, no /dev/shm mapping, none of the sequence's IPC names, and every descriptor the library obtained must have been closed exactly once; "
         "after p_libsys_shutdown no library block may be alive at all.",
    note="glibc-internal descriptors only via /proc/self/fd; anonymous mappings not compared; one warm-up run precedes each snapshot."),
 "C04": dict(cat="exploration", ref="§3 C04",
    technique="runtime value oracle (C unsigned arithmetic) + concurrent history checkers (permutation / chain / exactly-one / bit ownership) + store-buffering and message-passing litmus tests, per atomic model; TSan for c11 and sim",
    text="All three atomic models (c11, sync, sim) are built by the repository's own CMake and driven by the same harness: exhaustive boundary operand pairs + random pairs against wrapping 32-bit / pointer-width arithmetic; "
         "T<=64 threads of tickets, strides, refcounts, CAS counters, bit ownership and tagged words whose returned values must form a sequential history; SB litmus (set/get as full barriers, (0,0) forbidden; verified to fire when set/get are weakened to release/acquire) and MP with plain payload under TSan.",
    note="TSan not applied to sync; UBSan not applied to sim wrap-around operands; x86-TSO hides some barrier weakenings from the value oracles."),
 "C01": dict(cat="exploration", ref="§3 C01",
    technique="runtime shadow-state monitor inside critical sections (owner word, record consistency, counter equality) + acknowledgement handshakes for trylock + ThreadSanitizer as happens-before oracle, across c11/sync/sim builds",
    text="PMutex and PSpinLock (c11, sync and sim models, each built by the repository's CMake) under 2..64 threads mixing lock/trylock on 1 or 3 objects: every acquisition checks that no other holder is inside, that the previous "
         "holder's record is complete and that counters add up; trylock is probed with a clock-free handshake (FALSE and returning while held, TRUE when free) and single-threaded; TSan builds use plain payload only so a weakened "
         "acquire/release is reported as a race. A driver-internal progress watchdog turns a lock call that never returns into a violation.",
    note="TSan not applied to the sync model; interleavings are those the OS produces under oversubscription."),
 "C03": dict(cat="exploration", ref="§3 C03",
    technique="runtime monitors over producer/consumer logs (exactly-once, order, termination), in-monitor exclusion assertions, registered-waiter wake counting, trylock probe for mutex-held-on-return; ASan and TSan builds",
    text="Bounded buffers (capacity 1-4) with up to 33x33 producers/consumers in signal and broadcast variants are checked offline for loss, duplication and per-producer order and online for another thread inside the monitor after "
         "lock/wait returned; W<=64 waiters registered under the mutex must all arrive after ONE broadcast and at least one after ONE signal; a woken waiter that stays inside must make a prober's trylock fail; TSan decides "
         "the atomicity of release-and-wait on plain monitor data; a progress watchdog reports lost wake-ups.",
    note="Wake-up arrival uses a generous 20 s wall-clock bound; glibc condvars trusted as far as observed."),
 "C05": dict(cat="exploration", ref="§3 C05",
    technique="runtime monitor of handle blocks in the allocator log against shadow reference counts and finished flags, exit-code/payload oracle after join, per-value TLS destructor counters, --wrap delay injection at thread start; ASan, plain, TSan builds",
    text="Thousands of joinable/detached threads with random exit codes, ref/unref/join orders and injected start/creator delays: the free of each PUThread block must happen exactly once, with no harness reference left and the "
         "thread function finished (both release orders must be observed); join must yield the code, happen after the function finished and make plain payload writes visible (TSan); TLS values are per-thread, set_local never "
         "destroys, replace_local destroys once before returning, values left at exit are destroyed once, first-use races on a fresh key keep values apart and leak no key block; foreign threads' implicit handles are released at exit.",
    note="Tracking allocator absent in TSan builds; one documented TSan suppression (failed CAS modelled as write)."),
 "C02": dict(cat="exploration", ref="§3 C02",
    technique="seeded controlled scheduler over --wrap'ed pthread mutex/cond calls (exact deadlock / lost-wake-up criterion, spurious wake-up injection) for the general model + OS-scheduled stress with shadow holder counts, handshakes and TSan for both models",
    text="General model: tens of thousands of replayable interleavings per second in which exactly one worker runs between scheduling points; shadow reader/writer counts are checked at every grant, try* may never reach a condition wait, "
         "and a history with no enabled worker and unfinished scripts is a deadlock/lost wake-up (four hand-made mutants of prwlock-general.c are caught within the quick budget). Both models (native pthread and general, selected through "
         "the repository's CMake option) run OS-scheduled stress up to 64 threads with perturbation, readers-share and try-while-writer handshakes, plain payload under TSan and a no-progress watchdog.",
    note="Scheduling points are the pthread calls and the critical sections; liveness is bounded (finite rounds)."),
 "C06": dict(cat="exploration", ref="§3 C06",
    technique="multi-process agents driven against a reference model with call/return events at the client boundary; counter read from glibc's semaphore file; blocking probes; k-exclusion stress; SIGKILL crash-point enumeration (wrapper, strace) + documented recovery",
    text="2-3 agent processes with up to 6 handles each run generated histories of new(OPEN|CREATE)/acquire/release/take_ownership/free over 1-3 names; after every call the existence and exact counter of every name in /dev/shm "
         "are compared with the model (instances, name binding, ownership); acquires on an empty counter must block until another handle releases; N processes x M threads must never exceed k holders and conserve the units; "
         "scripted children are SIGKILLed before/after every IPC libc call (thorough: at every occurrence of the relevant system calls via strace) and the documented open / take ownership / free / create sequence must restore a fresh counter.",
    note="Counter inspection relies on glibc's named-semaphore file layout; creator frees without ownership are outside the documented behaviour and not generated."),
 "C07": dict(cat="exploration", ref="§3 C07",
    technique="multi-process agents against a byte-image reference model (cross-handle digests after every write), size rules, /proc maps and /dev/shm inspection, system-wide locked read-modify-write workload, synchronised concurrent first opens, SIGKILL crash points + documented recovery",
    text="2-3 agent processes open 1-2 names with equal/larger/smaller/zero size arguments and read-only handles; after every new/write every live handle in every process must read exactly the model image, sizes must obey the stated rules, "
         "mappings must cover get_size and disappear on free, owner frees must remove segment and lock semaphore. N processes x M locked non-atomic increments must add up; processes released at the same instant open a fresh name and the handles "
         "obtained must share memory and lock; scripted children are SIGKILLed before/after every IPC libc call and the documented clean-up must yield a fresh zeroed segment of the new size with a usable lock.",
    note="Two known findings (KNOWN_FINDINGS.txt): split lock after concurrent first opens; zero-size segment after a kill between shm_open and ftruncate."),
 "C10": dict(cat="exploration", ref="§3 C10",
    technique="runtime reference state machine compared after every call of random socket call sequences + --wrap call counters (poll count, descriptor-carrying calls, close count), lower-bound timing, helper-flag handshakes, fork-guarded odd-state probes",
    text="Random sequences of new/option/bind/listen/connect/accept/send/receive/receive_from/send_to/shutdown/close over stream and datagram sockets of both families; all getters are compared with the model after each call; "
         "non-blocking calls must not poll, timed calls that cannot proceed must fail with timed-out not before T, untimed blocking calls return only when they can proceed, calls on a closed socket fail with not-available without any "
         "libc call carrying a descriptor (a decoy descriptor reusing the number stays intact), close() happens exactly once per socket, new and accepted descriptors carry FD_CLOEXEC.",
    note="Four known findings: timed receive on a datagram socket after shutdown(read) spins forever. Kernel-dependent outcomes are executed but not judged."),
 "C09": dict(cat="exploration", ref="§3 C09",
    technique="runtime stream/datagram integrity monitor (keyed generator compared on the fly by reported byte counts) under link-time (--wrap) fault injection into send/recv/sendto/recvfrom/poll/connect/accept; fork-guarded peer-gone cases; ASan, plain, TSan",
    text="Two-thread TCP sessions (IPv4/IPv6, blocking and non-blocking, 1 B..32 MiB, chunk and buffer sizes 1 B..1 MiB, 4 KiB socket buffers, slow receivers) and UDP exchanges with truncating buffers run while 0-50% of the "
         "underlying libc calls return EINTR, EAGAIN, short counts or spurious readiness; the received stream must equal the sent stream, datagrams must be one sent datagram cut to the buffer with the right sender address, "
         "blocking calls must not surface would-block/interrupted errors, and writing to a vanished peer must end in an error return, never in a signal.",
    note="Loopback only; injected conditions are ones the kernel may legally produce on non-blocking descriptors."),
}

NOT_YET = {}

def main():
    props = [json.loads(l) for l in open(os.path.join(VERIF, "properties.jsonl"))]
    checks = []
    na = []
    for p in props:
        pid = p["id"]
        c = CHECKS.get(pid)
        if not c:
            na.append({"property_id": pid, "reason": NOT_YET.get(pid, "check not implemented yet in this round (planned, see DESIGN.md §3 %s); nothing is claimed for it" % pid)})
            continue
        checks.append({
            "property_id": pid,
            "quick_cmd": "bin/check %s --tier quick" % pid,
            "thorough_cmd": "bin/check %s --tier thorough" % pid,
            "evidence_file": "evidence/%s.json" % pid,
            "replay_cmd_template": "bin/check %s --replay {path}" % pid,
            "engine": "vf",
            "level_claimed": {"category": c["cat"], "text": c["text"], "design_ref": c["ref"]},
            "level_note": c["note"],
            "technique": c["technique"],
        })
    man = {
        "version": 1,
        "setup_cmd": "python3 lib/vf/build.py",
        "hooks": {
            "guard": "PLIBSYS_VERIF",
            "enable": "every verification build passes -DPLIBSYS_VERIF in CMAKE_C_FLAGS (lib/vf/build.py); instrumentation is otherwise link-time (-Wl,--wrap) and through p_mem_set_vtable",
            "baseline_off_cmd": "cmake -G Ninja -S /repo -B /repo/_build && cmake --build /repo/_build && ctest --test-dir /repo/_build -j8 --timeout 900",
            "source_commits": [],
            "add_only": True,
        },
        "engines": [{"name": "vf", "path": "bin/check", "serves_properties": [c["property_id"] for c in checks],
                     "kind_free_text": "python orchestrator + C drivers linked against sanitizer builds of /repo (runtime monitoring)"}],
        "checks": checks,
        "not_applicable": na,
        "notes": "Runtime monitoring and sanitizers only. Known findings: KNOWN_FINDINGS.txt. Exit codes: 0 held, 1 violation, 2 harness failure/inconclusive.",
    }
    with open(os.path.join(VERIF, "MANIFEST.json"), "w") as f:
        json.dump(man, f, indent=1)
    print("wrote MANIFEST.json: %d checks, %d not_applicable" % (len(checks), len(na)))

main()

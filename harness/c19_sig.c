/* c19_sig: blocking library calls under handled signals (no SA_RESTART) and under EINTR injected at the k-th
 * invocation of each blocking libc call (C19).  Linked with wrap_sys.c. */
#include <plibsys.h>
#include <pthread.h>
#include <semaphore.h>
#include <signal.h>
#include <errno.h>
#include "vh.h"
#include "vh_ipc.h"
#include "wrap_sys.h"

static char prefix[64];
static volatile long sig_count;
static void on_sig(int s) { (void)s; __sync_fetch_and_add(&sig_count, 1); }

static long long st_long_sleeps;
static long long st_cases, st_inconclusive, st_signals_in_calls, st_inj_cases, st_inj_fired;
static long st_by_kind[16];
static const char *cur = "-";

static volatile long long progress;
static void viol(const char *symptom, const char *fmt, ...) __attribute__((format(printf, 2, 3)));
static void viol(const char *symptom, const char *fmt, ...) {
	char key[200], buf[1200]; va_list ap;
	va_start(ap, fmt); vsnprintf(buf, sizeof buf, fmt, ap); va_end(ap);
	snprintf(key, sizeof key, "call=%s symptom=%s", cur, symptom);
	if (vh_nviol < vh_max_viol) vh_viol("C19", key, "%s", buf);
}

/* a call that never comes back is reported by name (no case completed for 40 s) */
static void *wd_fn(void *a) { long long last = -1; int idle = 0; sigset_t ss; (void)a; sigemptyset(&ss); sigaddset(&ss, SIGUSR1); pthread_sigmask(SIG_BLOCK, &ss, NULL);
	for (;;) { long long p; struct timespec ts = { 1, 0 }; nanosleep(&ts, NULL); p = __atomic_load_n(&progress, __ATOMIC_RELAXED); if (p != last) { last = p; idle = 0; } else if (++idle >= 40) { viol("never-returns", "the call did not return within 40 s of the last completed case (signals handled so far: %ld)", (long)sig_count); fflush(stdout); _exit(0); } }
	return NULL; }

/* ---------------- signal storm ---------------- */
typedef struct { pthread_t target; volatile int stop; vh_rng r; int max; long sent; int min_us, max_us; } Storm;
static void *storm_fn(void *a) {
	Storm *s = a; int n = 0;
	while (!__atomic_load_n(&s->stop, __ATOMIC_RELAXED) && n < s->max) {
		struct timespec ts; long us = s->min_us + (long)vh_below(&s->r, (uint64_t)(s->max_us - s->min_us + 1));
		ts.tv_sec = 0; ts.tv_nsec = us * 1000; nanosleep(&ts, NULL);
		if (__atomic_load_n(&s->stop, __ATOMIC_RELAXED)) break;
		pthread_kill(s->target, SIGUSR1); n++;
	}
	s->sent = n; return NULL;
}
static pthread_t storm_th; static Storm storm;
static void storm_start(vh_rng *r, int max, int min_us, int max_us) { storm.target = pthread_self(); storm.stop = 0; storm.max = max; storm.min_us = min_us; storm.max_us = max_us; vh_seed(&storm.r, vh_next(r)); pthread_create(&storm_th, NULL, storm_fn, &storm); }
static void storm_stop(void) { __atomic_store_n(&storm.stop, 1, __ATOMIC_RELAXED); pthread_join(storm_th, NULL); }

/* ---------------- helpers that enable a blocked call later ---------------- */
typedef struct { int delay_ms; volatile int flag; PSemaphore *sem; PShm *shm; PSocket *sock; PSocketAddress *addr; const char *data; size_t len; int kind; } Helper;
static void *helper_fn(void *a) {
	Helper *h = a; sigset_t ss; struct timespec ts;
	sigemptyset(&ss); sigaddset(&ss, SIGUSR1); pthread_sigmask(SIG_BLOCK, &ss, NULL);
	ts.tv_sec = h->delay_ms / 1000; ts.tv_nsec = (h->delay_ms % 1000) * 1000000L; nanosleep(&ts, NULL);
	__atomic_store_n(&h->flag, 1, __ATOMIC_SEQ_CST);
	if (h->kind == 0) p_semaphore_release(h->sem, NULL);
	else if (h->kind == 1) p_shm_unlock(h->shm, NULL);
	else if (h->kind == 2) { PSocket *c = p_socket_new(P_SOCKET_FAMILY_INET, P_SOCKET_TYPE_STREAM, P_SOCKET_PROTOCOL_TCP, NULL); if (c && p_socket_connect(c, h->addr, NULL)) { h->sock = c; } else { p_socket_free(c); } }
	else if (h->kind == 3) { p_socket_send(h->sock, h->data, h->len, NULL); }
	return NULL;
}

static double ms_since(uint64_t t0) { return (double)(vh_now_ns() - t0) / 1e6; }

/* one real-signal case; returns 1 if signals were delivered during the call */
static int real_sleep(vh_rng *r) {
	static const int mss[] = { 1, 5, 20, 60, 150, 400 }; int ms = mss[vh_below(r, 6)], rc; long s0 = sig_count; uint64_t t0; double el;
	static int long_done;
	cur = "p_uthread_sleep";
	/* once per run: a sleep of more than a second interrupted early, so that the remaining time still has a whole-second part */
	if (!long_done && vh_chance(r, 50)) { long_done = 1; ms = vh_chance(r, 50) ? 1150 : 2300; st_long_sleeps++; }
	storm_start(r, 40, 50, ms * 400 > 5000 ? 5000 : ms * 400 + 60);
	t0 = vh_now_ns(); rc = p_uthread_sleep((puint32)ms); el = ms_since(t0);
	storm_stop();
	if (rc != 0) viol("returned-error", "p_uthread_sleep(%d) returned %d after %.2f ms with %ld signals handled", ms, rc, el, sig_count - s0);
	else if (el < ms - 0.01) viol("returned-early", "p_uthread_sleep(%d) returned 0 after only %.3f ms (%ld signals handled)", ms, el, sig_count - s0);
	return sig_count > s0;
}

static int real_sem(vh_rng *r, int use_shm) {
	char name[96]; Helper h; pthread_t ht; long s0; pboolean ok; int flag_at_return; static unsigned long u;
	memset(&h, 0, sizeof h); h.delay_ms = 5 + (int)vh_below(r, 60);
	snprintf(name, sizeof name, "%s-rs-%lu", prefix, ++u);
	if (!use_shm) {
		PSemaphore *s = p_semaphore_new(name, 0, P_SEM_ACCESS_CREATE, NULL);
		cur = "p_semaphore_acquire";
		if (!s) { viol("setup", "p_semaphore_new failed"); return 0; }
		p_semaphore_take_ownership(s); h.sem = s; h.kind = 0;
		pthread_create(&ht, NULL, helper_fn, &h);
		s0 = sig_count; storm_start(r, 60, 50, 3000);
		ok = p_semaphore_acquire(s, NULL); flag_at_return = __atomic_load_n(&h.flag, __ATOMIC_SEQ_CST);
		storm_stop(); pthread_join(ht, NULL);
		if (!ok) viol("returned-false", "acquire failed under %ld handled signals", sig_count - s0);
		else if (!flag_at_return) viol("returned-without-unit", "acquire returned TRUE before any unit was released (%ld signals handled)", sig_count - s0);
		if (!ok || !flag_at_return) { if (!flag_at_return) { /* helper will still post: absorb it */ } }
		p_semaphore_free(s);
	} else {
		PShm *a = p_shm_new(name, 128, P_SHM_ACCESS_READWRITE, NULL), *b;
		cur = "p_shm_lock";
		if (!a) { viol("setup", "p_shm_new failed"); return 0; }
		p_shm_take_ownership(a);
		b = p_shm_new(name, 128, P_SHM_ACCESS_READWRITE, NULL);
		if (!b) { viol("setup", "second p_shm_new failed"); p_shm_free(a); return 0; }
		p_shm_lock(b, NULL); h.shm = b; h.kind = 1;
		pthread_create(&ht, NULL, helper_fn, &h);
		s0 = sig_count; storm_start(r, 60, 50, 3000);
		ok = p_shm_lock(a, NULL); flag_at_return = __atomic_load_n(&h.flag, __ATOMIC_SEQ_CST);
		storm_stop(); pthread_join(ht, NULL);
		if (!ok) viol("returned-false", "lock failed under %ld handled signals", sig_count - s0);
		else if (!flag_at_return) viol("returned-without-unit", "lock returned TRUE while another handle still held it (%ld signals handled)", sig_count - s0);
		if (ok) p_shm_unlock(a, NULL);
		p_shm_free(b); p_shm_free(a);
	}
	return sig_count > s0;
}

static PSocket *mk_listener(PSocketAddress **bound, int timeout) {
	PSocketAddress *la = p_socket_address_new_loopback(P_SOCKET_FAMILY_INET, 0); PSocket *ls = p_socket_new(P_SOCKET_FAMILY_INET, P_SOCKET_TYPE_STREAM, P_SOCKET_PROTOCOL_TCP, NULL);
	/* 127.0.0.0 is what new_loopback gives; bind to 127.0.0.1 explicitly */
	p_socket_address_free(la); la = p_socket_address_new("127.0.0.1", 0);
	if (!ls || !la || !p_socket_bind(ls, la, TRUE, NULL) || !p_socket_listen(ls, NULL)) { p_socket_free(ls); p_socket_address_free(la); return NULL; }
	p_socket_set_timeout(ls, timeout);
	*bound = p_socket_get_local_address(ls, NULL); p_socket_address_free(la);
	return ls;
}

static int real_sock(vh_rng *r) {
	PSocketAddress *bound = NULL; PSocket *ls = mk_listener(&bound, 0), *ac; Helper h, h2; pthread_t ht; long s0 = sig_count; PError *err = NULL; char buf[256]; pssize n; int fl;
	static const char msg[] = "late-data-under-signal-storm";
	if (!ls || !bound) { cur = "socket"; viol("setup", "listener"); return 0; }
	memset(&h, 0, sizeof h); h.kind = 2; h.addr = bound; h.delay_ms = 5 + (int)vh_below(r, 40);
	pthread_create(&ht, NULL, helper_fn, &h);
	cur = "p_socket_accept";
	storm_start(r, 60, 50, 3000);
	ac = p_socket_accept(ls, &err); fl = __atomic_load_n(&h.flag, __ATOMIC_SEQ_CST);
	storm_stop(); pthread_join(ht, NULL);
	if (!ac) viol("failed", "blocking accept failed under handled signals: code %d native %d (%s)", err ? p_error_get_code(err) : 0, err ? p_error_get_native_code(err) : 0, err ? p_error_get_message(err) : "");
	else if (!fl) viol("returned-early", "accept returned a socket before any peer connected");
	p_error_free(err); err = NULL;
	if (ac && h.sock) {
		memset(&h2, 0, sizeof h2); h2.kind = 3; h2.sock = h.sock; h2.data = msg; h2.len = sizeof msg; h2.delay_ms = 5 + (int)vh_below(r, 40);
		pthread_create(&ht, NULL, helper_fn, &h2);
		cur = "p_socket_receive";
		storm_start(r, 60, 50, 3000);
		n = p_socket_receive(ac, buf, sizeof buf, &err); fl = __atomic_load_n(&h2.flag, __ATOMIC_SEQ_CST);
		storm_stop(); pthread_join(ht, NULL);
		if (n < 0) viol("failed", "blocking receive failed under handled signals: code %d native %d (%s)", err ? p_error_get_code(err) : 0, err ? p_error_get_native_code(err) : 0, err ? p_error_get_message(err) : "");
		else if (!fl) viol("returned-early", "receive returned %zd before anything was sent", (ssize_t)n);
		else if (n == 0 || (size_t)n > sizeof msg || memcmp(buf, msg, (size_t)n)) viol("wrong-data", "receive returned %zd bytes that are not a prefix of what was sent", (ssize_t)n);
		p_error_free(err); err = NULL;
	}
	p_socket_free(h.sock); p_socket_free(ac); p_socket_free(ls); p_socket_address_free(bound);
	return sig_count > s0;
}

/* ---------------- EINTR injection at the k-th call ---------------- */
static int semvalue(const char *name) {        /* exact counter through a raw handle on the same platform key */
	char k[16]; sem_t *s; int v = -999;
	vh_ipc_key(name, VH_SEM_SUFFIX, k);
	s = sem_open(k, 0, 0, 0);
	if (s == SEM_FAILED) return -998;
	sem_getvalue(s, &v); sem_close(s); return v;
}

static void inj_case(int id, long k, int burst, uint64_t seed) {
	char name[96]; static unsigned long u; long before;
	snprintf(name, sizeof name, "%s-inj-%lu", prefix, ++u);
	st_inj_cases++; __atomic_add_fetch(&progress, 1, __ATOMIC_RELAXED);
	w_reset();
	switch (id) {
	case W_CLOCK_NANOSLEEP: case W_NANOSLEEP: {
		int ms = 3 + (int)(seed % 20), rc; uint64_t t0; double el;
		if (k == 1 && burst == 1) { ms = 1000 + (int)(seed % 300); st_long_sleeps++; }      /* remaining time reported by the interrupted call has a seconds part */
		cur = "p_uthread_sleep";
		w_plan(id, WM_AT, k, burst, WK_EINTR, seed);
		t0 = vh_now_ns(); rc = p_uthread_sleep((puint32)ms); el = ms_since(t0);
		before = w_injected(id);
		if (w_calls(id) == 0) { w_reset(); return; }      /* this libc call is not the one the build uses */
		if (before) { st_inj_fired++; st_by_kind[id]++; }
		if (rc != 0) viol("returned-error", "p_uthread_sleep(%d) returned %d when %s was interrupted at call %ld (x%d)", ms, rc, w_names[id], k, burst);
		else if (el < ms - 0.01) viol("returned-early", "p_uthread_sleep(%d) returned 0 after %.3f ms when %s was interrupted at call %ld", ms, el, w_names[id], k);
		break; }
	case W_SEM_WAIT: {
		PSemaphore *s = p_semaphore_new(name, 2, P_SEM_ACCESS_CREATE, NULL); pboolean ok; int v;
		cur = "p_semaphore_acquire";
		if (!s) { viol("setup", "p_semaphore_new"); break; }
		p_semaphore_take_ownership(s);
		w_plan(id, WM_AT, k, burst, WK_EINTR, seed);
		ok = p_semaphore_acquire(s, NULL);
		if (w_injected(id)) { st_inj_fired++; st_by_kind[id]++; }
		w_reset();
		v = semvalue(name);
		if (!ok) viol("returned-false", "acquire failed when sem_wait was interrupted at call %ld (x%d)", k, burst);
		else if (v != 1) viol("unit-accounting", "after one acquire on value 2 the counter is %d (sem_wait interrupted at call %ld)", v, k);
		p_semaphore_free(s);
		break; }
	case W_SEM_OPEN: {
		PSemaphore *s; PError *err = NULL;
		cur = "p_semaphore_new";
		w_plan(id, WM_AT, k, burst, WK_EINTR, seed);
		s = p_semaphore_new(name, 3, P_SEM_ACCESS_CREATE, &err);
		if (w_injected(id)) { st_inj_fired++; st_by_kind[id]++; }
		w_reset();
		if (!s) viol("failed", "p_semaphore_new failed when sem_open was interrupted at call %ld (x%d): %s", k, burst, err ? p_error_get_message(err) : "");
		else {
			/* the name now exists: a second opener (OPEN mode) and a creator over the existing name (CREATE mode) take the
			 * EEXIST path with its own sem_open call; both must survive an interruption at any of their calls too */
			PSemaphore *o, *c; int v = semvalue(name);
			if (v != 3) viol("wrong-value", "new semaphore has value %d, expected 3", v);
			cur = "p_semaphore_new(open-existing)";
			w_plan(id, WM_AT, k, burst, WK_EINTR, seed);
			o = p_semaphore_new(name, 9, P_SEM_ACCESS_OPEN, &err);
			if (w_injected(id)) { st_inj_fired++; st_by_kind[id]++; }
			w_reset();
			if (!o) viol("failed", "p_semaphore_new(OPEN) on an existing semaphore failed when sem_open was interrupted at call %ld (x%d): %s", k, burst, err ? p_error_get_message(err) : "");
			else { v = semvalue(name); if (v != 3) viol("wrong-value", "opening an existing semaphore changed its value to %d, expected 3", v); p_semaphore_free(o); }
			p_error_free(err); err = NULL;
			cur = "p_semaphore_new(create-over-existing)";
			w_plan(id, WM_AT, k, burst, WK_EINTR, seed);
			c = p_semaphore_new(name, 5, P_SEM_ACCESS_CREATE, &err);
			if (w_injected(id)) { st_inj_fired++; st_by_kind[id]++; }
			w_reset();
			if (!c) viol("failed", "p_semaphore_new(CREATE) over an existing semaphore failed when sem_open was interrupted at call %ld (x%d): %s", k, burst, err ? p_error_get_message(err) : "");
			else { v = semvalue(name); if (v != 5) viol("wrong-value", "semaphore re-created with value 5 has value %d", v); p_semaphore_take_ownership(c); p_semaphore_free(c); }
			p_semaphore_free(s);     /* s refers to the old, already unlinked object */
		}
		p_error_free(err);
		break; }
	case W_SHM_OPEN: {
		PShm *a; PShmBuffer *b; PError *err = NULL;
		cur = "p_shm_new";
		w_plan(id, WM_AT, k, burst, WK_EINTR, seed); w_plan(W_SEM_OPEN, WM_AT, k, burst, WK_EINTR, seed);
		a = p_shm_new(name, 256, P_SHM_ACCESS_READWRITE, &err);
		if (w_injected(id) + w_injected(W_SEM_OPEN)) { st_inj_fired++; st_by_kind[id]++; }
		if (!a) viol("failed", "p_shm_new failed when shm_open/sem_open were interrupted at call %ld (x%d): %s", k, burst, err ? p_error_get_message(err) : "");
		else {
			PShm *a2;
			w_reset(); cur = "p_shm_new(existing)";     /* second handle on the existing segment: shm_open and the lock semaphore's sem_open take their EEXIST paths */
			w_plan(id, WM_AT, k, burst, WK_EINTR, seed); w_plan(W_SEM_OPEN, WM_AT, k, burst, WK_EINTR, seed);
			p_error_free(err); err = NULL;
			a2 = p_shm_new(name, 256, P_SHM_ACCESS_READWRITE, &err);
			if (w_injected(id) + w_injected(W_SEM_OPEN)) { st_inj_fired++; st_by_kind[W_SEM_OPEN]++; }
			w_reset();
			if (!a2) viol("failed", "p_shm_new on an existing segment failed when shm_open/sem_open were interrupted at call %ld (x%d): %s", k, burst, err ? p_error_get_message(err) : "");
			else p_shm_free(a2);
			p_shm_take_ownership(a); w_plan(W_SEM_WAIT, WM_AT, 1, burst, WK_EINTR, seed); cur = "p_shm_lock"; if (!p_shm_lock(a, NULL)) viol("returned-false", "p_shm_lock failed when sem_wait was interrupted"); else p_shm_unlock(a, NULL); p_shm_free(a); }
		p_error_free(err); err = NULL;
		w_reset(); cur = "p_shm_buffer_new";
		w_plan(id, WM_AT, k, burst, WK_EINTR, seed);
		strcat(name, "b");
		b = p_shm_buffer_new(name, 64, &err);
		if (!b) viol("failed", "p_shm_buffer_new failed when shm_open was interrupted at call %ld: %s", k, err ? p_error_get_message(err) : "");
		else { p_shm_buffer_take_ownership(b); p_shm_buffer_free(b); }
		p_error_free(err); w_reset();
		break; }
	case W_RECVFROM: case W_SENDTO: {
		PSocketAddress *la = p_socket_address_new("127.0.0.1", 0), *ba = NULL, *from = NULL; PError *err = NULL; char buf[64]; pssize n; int round;
		PSocket *a = p_socket_new(P_SOCKET_FAMILY_INET, P_SOCKET_TYPE_DATAGRAM, P_SOCKET_PROTOCOL_UDP, NULL), *b = p_socket_new(P_SOCKET_FAMILY_INET, P_SOCKET_TYPE_DATAGRAM, P_SOCKET_PROTOCOL_UDP, NULL);
		cur = "udp-exchange";
		if (!a || !b || !la || !p_socket_bind(a, la, FALSE, NULL) || !(ba = p_socket_get_local_address(a, NULL))) { viol("setup", "udp sockets"); }
		else {
			p_socket_set_timeout(a, 2000); p_socket_set_timeout(b, 2000);
			w_plan(id, WM_AT, k, burst, WK_EINTR, seed);
			for (round = 0; round < 4; round++) {
				p_error_free(err); err = NULL; cur = "p_socket_send_to";
				n = p_socket_send_to(b, ba, "datagram-0123", 13, &err);
				if (n != 13) { viol("failed", "send_to returned %zd with %s interrupted at call %ld: code %d native %d", (ssize_t)n, w_names[id], k, err ? p_error_get_code(err) : 0, err ? p_error_get_native_code(err) : 0); break; }
				p_error_free(err); err = NULL; cur = "p_socket_receive_from";
				n = p_socket_receive_from(a, &from, buf, sizeof buf, &err);
				if (n != 13 || memcmp(buf, "datagram-0123", 13)) { viol("failed", "receive_from returned %zd with %s interrupted at call %ld: code %d native %d", (ssize_t)n, w_names[id], k, err ? p_error_get_code(err) : 0, err ? p_error_get_native_code(err) : 0); break; }
				p_socket_address_free(from); from = NULL;
			}
			if (w_injected(id)) { st_inj_fired++; st_by_kind[id]++; }
		}
		w_reset(); p_error_free(err); p_socket_address_free(from); p_socket_address_free(ba); p_socket_address_free(la); p_socket_free(a); p_socket_free(b);
		break; }
	default: {   /* socket calls: a whole TCP exchange with the given call interrupted */
		PSocketAddress *bound = NULL; PSocket *ls = mk_listener(&bound, 2000), *cl, *ac = NULL; PError *err = NULL; char buf[64]; pssize n, got = 0; static const char msg[] = "0123456789abcdefghij";
		cur = "socket-exchange";
		if (!ls || !bound) { viol("setup", "listener"); p_socket_free(ls); break; }
		cl = p_socket_new(P_SOCKET_FAMILY_INET, P_SOCKET_TYPE_STREAM, P_SOCKET_PROTOCOL_TCP, NULL);
		p_socket_set_timeout(cl, 2000);
		w_plan(id, WM_AT, k, burst, WK_EINTR, seed);
		cur = "p_socket_connect";
		if (!p_socket_connect(cl, bound, &err)) viol("failed", "blocking connect failed with %s interrupted at call %ld (x%d): code %d native %d", w_names[id], k, burst, err ? p_error_get_code(err) : 0, err ? p_error_get_native_code(err) : 0);
		else {
			p_error_free(err); err = NULL; cur = "p_socket_accept";
			ac = p_socket_accept(ls, &err);
			if (!ac) viol("failed", "blocking accept failed with %s interrupted at call %ld (x%d): code %d native %d", w_names[id], k, burst, err ? p_error_get_code(err) : 0, err ? p_error_get_native_code(err) : 0);
			else {
				int round;
				p_socket_set_timeout(ac, 2000);
				for (round = 0; round < 5; round++) {
					PSocket *from = (round & 1) ? ac : cl, *to = (round & 1) ? cl : ac;
					p_error_free(err); err = NULL; cur = "p_socket_send"; got = 0;
					n = p_socket_send(from, msg, sizeof msg, &err);
					if (n != (pssize)sizeof msg) { viol("failed", "blocking send returned %zd with %s interrupted at call %ld: code %d native %d", (ssize_t)n, w_names[id], k, err ? p_error_get_code(err) : 0, err ? p_error_get_native_code(err) : 0); break; }
					p_error_free(err); err = NULL; cur = "p_socket_receive";
					while (got < (pssize)sizeof msg) { n = p_socket_receive(to, buf + got, sizeof buf - (size_t)got, &err); if (n <= 0) break; got += n; }
					if (got != (pssize)sizeof msg || memcmp(buf, msg, sizeof msg)) { viol("failed", "blocking receive got %zd/%zu bytes (last %zd) with %s interrupted at call %ld: code %d native %d", (ssize_t)got, sizeof msg, (ssize_t)n, w_names[id], k, err ? p_error_get_code(err) : 0, err ? p_error_get_native_code(err) : 0); break; }
				}
			}
		}
		if (w_injected(id)) { st_inj_fired++; st_by_kind[id]++; }
		w_reset();
		p_error_free(err); p_socket_free(ac); p_socket_free(cl); p_socket_free(ls); p_socket_address_free(bound);
		break; }
	}
}

int main(int argc, char **argv) {
	vh_rng r; double t0 = vh_now(); const char *mode = vh_arg(argc, argv, "--mode", "signals"); long long n = vh_argi(argc, argv, "--n", 50), i; struct sigaction sa; int id;
	uint64_t seed = (uint64_t)vh_argi(argc, argv, "--seed", 1);
	vh_seed(&r, seed * 0x9E3779B97F4A7C15ULL + mode[0]);
	snprintf(prefix, sizeof prefix, "vfC19-%d-%llu", (int)getpid(), (unsigned long long)seed);
	memset(&sa, 0, sizeof sa); sa.sa_handler = on_sig; sigemptyset(&sa.sa_mask); sa.sa_flags = 0;   /* no SA_RESTART */
	sigaction(SIGUSR1, &sa, NULL);
	(void)vh_private_net();
	p_libsys_init();
	{ pthread_t wd; pthread_create(&wd, NULL, wd_fn, NULL); }
	if (!strcmp(mode, "signals")) {
		for (i = 0; i < n && vh_nviol < vh_max_viol; i++) {
			int kind = (int)(i % 4), tries, hit = 0;
			for (tries = 0; tries < 4 && !hit; tries++) {
				if (kind == 0) hit = real_sleep(&r); else if (kind == 1) hit = real_sem(&r, 0); else if (kind == 2) hit = real_sem(&r, 1); else hit = real_sock(&r);
			}
			st_cases++; __atomic_add_fetch(&progress, 1, __ATOMIC_RELAXED); if (hit) st_signals_in_calls++; else st_inconclusive++;
		}
	} else {
		static const int ids[] = { W_CLOCK_NANOSLEEP, W_NANOSLEEP, W_SEM_WAIT, W_SEM_OPEN, W_SHM_OPEN, W_POLL, W_CONNECT, W_ACCEPT, W_RECV, W_SEND, W_RECVFROM, W_SENDTO };
		long K = vh_argi(argc, argv, "--K", 4); int maxburst = (int)vh_argi(argc, argv, "--burst", 3), b; long k;
		for (id = 0; id < (int)(sizeof ids / sizeof ids[0]); id++) for (k = 1; k <= K; k++) for (b = 1; b <= maxburst; b++) { if (vh_nviol >= vh_max_viol) break; inj_case(ids[id], k, b, vh_next(&r)); }
	}
	p_libsys_shutdown();
	printf("{\"ev\":\"stats\",\"mode\":\"%s\",\"signal_cases\":%lld,\"cases_with_signal_during_call\":%lld,\"cases_without\":%lld,\"signals_handled\":%ld,\"inj_cases\":%lld,\"inj_fired\":%lld,\"sleeps_longer_than_1s\":%lld,\"fired_by_call\":{",
	       mode, st_cases, st_signals_in_calls, st_inconclusive, (long)sig_count, st_inj_cases, st_inj_fired, st_long_sleeps);
	{ int first = 1; for (id = 0; id < 16 && id < W_N; id++) if (st_by_kind[id]) { printf("%s\"%s\":%ld", first ? "" : ",", w_names[id], st_by_kind[id]); first = 0; } }
	printf("},\"viol\":%d,\"wall\":%.2f}\n", vh_nviol, vh_now() - t0);
	return 0;
}

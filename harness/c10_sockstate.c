/* c10_sockstate: PSocket modes and life-cycle against a reference state machine (C10).  Linked with wrap_sys.c
 * (call counters: "non-blocking never waits" <=> zero poll() calls during the API call; "closed socket touches no
 * descriptor" <=> zero wrapped libc calls carrying a descriptor >= 0; "close idempotent" <=> one close() per socket). */
#include <plibsys.h>
#include <pthread.h>
#include <fcntl.h>
#include <sys/socket.h>
#include <netinet/in.h>
#include <errno.h>
#include <poll.h>
#include "vh.h"
#include "wrap_sys.h"

int __real_close(int); int __real_socket(int, int, int);
static const char *cur = "-"; static char oplog[1600]; static int oplen;
static void viol(const char *symptom, const char *fmt, ...) __attribute__((format(printf, 2, 3)));
static void viol(const char *symptom, const char *fmt, ...) {
	char key[200], buf[1200]; va_list ap;
	va_start(ap, fmt); vsnprintf(buf, sizeof buf, fmt, ap); va_end(ap);
	snprintf(key, sizeof key, "call=%s symptom=%s", cur, symptom);
	if (vh_nviol < vh_max_viol) vh_viol("C10", key, "%s", buf);
}

#define MAXS 8
typedef struct {
	PSocket *s; int used, v6, dgram;
	int blocking, timeout, keepalive, backlog, bound, listening, connected, closed;
	int peer;            /* index of the connected peer socket in the world, -1 */
	int pending;         /* listener: established connections not yet accepted */
	int pend_idx[8];
	long inflight;       /* bytes sent to this socket and not yet received */
	int fd_at_open; int decoy; int shut; int lst; int touched;   /* any network operation performed: later bind outcomes depend on the kernel, not judged */
} MS;
static MS w[MAXS];
static long long st_seq, st_calls, st_timed, st_nonblock, st_closed_calls, st_accepts, st_connects, st_skipped, st_cloexec_checked, st_untimed;
static uint64_t *sset, *tset; static size_t scap = 1 << 16, scnt, tcap = 1 << 18, tcnt;
static void set_add(uint64_t **set, size_t cap, size_t *cnt, uint64_t h) { size_t i; if (!h) h = 1; if (!*set) *set = calloc(cap, 8); if (*cnt * 2 > cap) return; i = h & (cap - 1); while ((*set)[i]) { if ((*set)[i] == h) return; i = (i + 1) & (cap - 1); } (*set)[i] = h; (*cnt)++; }
static uint64_t state_hash(const MS *m) { return ((uint64_t)m->v6) | ((uint64_t)m->dgram << 1) | ((uint64_t)m->blocking << 2) | ((uint64_t)(m->timeout > 0) << 3) | ((uint64_t)m->keepalive << 4) | ((uint64_t)m->bound << 5) | ((uint64_t)m->listening << 6) | ((uint64_t)m->connected << 7) | ((uint64_t)m->closed << 8) | ((uint64_t)(m->pending > 0) << 9) | ((uint64_t)(m->inflight > 0) << 10) | ((uint64_t)(m->backlog != 5) << 11) | 0x10000; }

/* a stream pair on which data/shutdown outcomes are fully determined by the model */
static int healthy(int i) { MS *m = &w[i]; MS *p; if (m->dgram || !m->connected || m->closed || m->shut || m->peer < 0) return 0; p = &w[m->peer]; return p->used && !p->closed && p->connected && !p->shut && p->peer == i; }
/* connected client still waiting in a live listener's queue */
static int queued(int i) { MS *m = &w[i]; return !m->dgram && m->connected && !m->closed && !m->shut && m->peer == -1 && m->lst >= 0 && w[m->lst].used && !w[m->lst].closed && w[m->lst].listening && !w[m->lst].shut; }
static void check_getters(int i, const char *after) {
	MS *m = &w[i]; PSocket *s = m->s;
	set_add(&sset, scap, &scnt, state_hash(m));
	if ((p_socket_is_closed(s) != FALSE) != m->closed) viol("getter-closed", "after %s: is_closed=%d model %d", after, p_socket_is_closed(s), m->closed);
	if ((p_socket_is_connected(s) != FALSE) != m->connected) viol("getter-connected", "after %s: is_connected=%d model %d", after, p_socket_is_connected(s), m->connected);
	if ((p_socket_get_blocking(s) != FALSE) != m->blocking) viol("getter-blocking", "after %s: get_blocking=%d model %d", after, p_socket_get_blocking(s), m->blocking);
	if (p_socket_get_timeout(s) != m->timeout) viol("getter-timeout", "after %s: get_timeout=%d model %d", after, p_socket_get_timeout(s), m->timeout);
	if (p_socket_get_listen_backlog(s) != m->backlog) viol("getter-backlog", "after %s: get_listen_backlog=%d model %d", after, p_socket_get_listen_backlog(s), m->backlog);
	if ((p_socket_get_keepalive(s) != FALSE) != m->keepalive) viol("getter-keepalive", "after %s: get_keepalive=%d model %d", after, p_socket_get_keepalive(s), m->keepalive);
	if (m->closed && p_socket_get_fd(s) != -1) viol("getter-fd", "after %s: closed socket still reports fd %d", after, p_socket_get_fd(s));
	if (!m->closed && p_socket_get_fd(s) < 0) viol("getter-fd", "after %s: open socket reports fd %d", after, p_socket_get_fd(s));
	if (p_socket_get_family(s) != (m->v6 ? P_SOCKET_FAMILY_INET6 : P_SOCKET_FAMILY_INET)) viol("getter-family", "family mismatch after %s", after);
	if (p_socket_get_type(s) != (m->dgram ? P_SOCKET_TYPE_DATAGRAM : P_SOCKET_TYPE_STREAM)) viol("getter-type", "type mismatch after %s", after);
}
static void check_cloexec(PSocket *s, const char *what) { int fd = p_socket_get_fd(s), fl = fcntl(fd, F_GETFD); st_cloexec_checked++; if (fl < 0 || !(fl & FD_CLOEXEC)) viol("cloexec-missing", "%s descriptor %d has no close-on-exec flag", what, fd); }

static int fam_force = -1, dgram_force = -1;
static int new_sock(int i, vh_rng *r) {
	MS *m = &w[i]; PError *err = NULL;
	memset(m, 0, sizeof *m); m->v6 = fam_force >= 0 ? fam_force : vh_chance(r, 40); m->dgram = dgram_force >= 0 ? dgram_force : vh_chance(r, 30); m->peer = -1; m->decoy = -1;
	cur = "p_socket_new";
	m->s = p_socket_new(m->v6 ? P_SOCKET_FAMILY_INET6 : P_SOCKET_FAMILY_INET, m->dgram ? P_SOCKET_TYPE_DATAGRAM : P_SOCKET_TYPE_STREAM, m->dgram ? P_SOCKET_PROTOCOL_UDP : P_SOCKET_PROTOCOL_TCP, &err);
	if (!m->s) { viol("new-failed", "p_socket_new failed: %s", err ? p_error_get_message(err) : ""); p_error_free(err); return 0; }
	m->used = 1; m->lst = -1; m->blocking = 1; m->timeout = 0; m->keepalive = 0; m->backlog = 5; m->fd_at_open = p_socket_get_fd(m->s);
	check_cloexec(m->s, "new socket"); check_getters(i, "new");
	return 1;
}
static PSocketAddress *loop_addr(int v6, int port) { return p_socket_address_new(v6 ? "::1" : "127.0.0.1", (puint16)port); }

/* expectation helper for an operation that cannot proceed */
static void expect_cannot_proceed(int i, const char *what, int ok, PError *err, double elapsed_ms) {
	MS *m = &w[i]; int code = err ? p_error_get_code(err) : 0;
	if (ok) { viol("succeeded-without-peer", "%s succeeded although it could not proceed (dgram=%d v6=%d connected=%d peer=%d lst=%d bound=%d) ops: %s", what, m->dgram, m->v6, m->connected, m->peer, m->lst, m->bound, oplog); return; }
	if (!m->blocking) {
		st_nonblock++;
		if (w_t_polls) viol("nonblocking-waited", "non-blocking %s called poll() %ld times", what, w_t_polls);
		if (code != P_ERROR_IO_WOULD_BLOCK && code != P_ERROR_IO_IN_PROGRESS) viol("nonblocking-wrong-error", "non-blocking %s failed with code %d instead of would-block/in-progress", what, code);
	} else if (m->timeout > 0) {
		st_timed++;
		if (code != P_ERROR_IO_TIMED_OUT) viol("timed-wrong-error", "%s with timeout %d ms failed with code %d (native %d) instead of timed-out", what, m->timeout, code, err ? p_error_get_native_code(err) : 0);
		else if (elapsed_ms < m->timeout - 1.0) viol("timed-out-early", "%s with timeout %d ms failed after only %.2f ms", what, m->timeout, elapsed_ms);
	}
}

static void closed_call_check(int i, const char *what, int failed, PError *err) {
	MS *m = &w[i]; st_closed_calls++;
	if (!failed) viol("closed-call-succeeded", "%s on a closed socket did not fail", what);
	else if (!err || p_error_get_code(err) != P_ERROR_IO_NOT_AVAILABLE) viol("closed-wrong-error", "%s on a closed socket failed with code %d instead of not-available", what, err ? p_error_get_code(err) : 0);
	if (w_t_fdcalls) viol("closed-touched-descriptor", "%s on a closed socket made %ld libc calls carrying a descriptor", what, w_t_fdcalls);
	if (m->decoy >= 0 && fcntl(m->decoy, F_GETFD) < 0) viol("closed-touched-descriptor", "%s on a closed socket closed an unrelated descriptor that reuses the old number", what);
}
#define RESET_T() do { w_t_fdcalls = 0; w_t_polls = 0; w_t_calls = 0; } while (0)
static long long st_timed_eintr, st_timed_late_data, st_accept_eagain;
/* a timed wait interrupted by a signal must still not end before T: inject EINTR into the first poll() of some timed calls */
static void maybe_interrupt_poll(MS *m, vh_rng *r) { if (m->blocking && m->timeout > 0 && vh_chance(r, 35)) { w_plan(W_POLL, WM_AT, w_calls(W_POLL) + 1, 1 + (int)vh_below(r, 2), WK_EINTR, vh_next(r)); st_timed_eintr++; } }

static int force_op = -1; static int paired;
static void do_op(int i, vh_rng *r) {
	static const int wops[] = { 0, 1, 1, 2, 3, 4, 5, 6, 6, 7, 8, 8, 8, 9, 9, 9, 10, 10, 11, 12, 13, 14, 15, 9, 10, 8, 6 };
	MS *m = &w[i]; PSocket *s = m->s; PError *err = NULL; int op = force_op >= 0 ? force_op : paired ? wops[vh_below(r, sizeof wops / sizeof wops[0])] : (int)vh_below(r, 16); char buf[64]; uint64_t t0; double el; int j;
	uint64_t sh = state_hash(m);
	if (oplen > 1400) { memmove(oplog, oplog + 700, (size_t)oplen - 700 + 1); oplen -= 700; } oplen += snprintf(oplog + oplen, sizeof oplog - (size_t)oplen, "s%d:op%d ", i, op);
	st_calls++; set_add(&tset, tcap, &tcnt, sh * 31 + (uint64_t)op);
	switch (op) {
	case 0: { int b = vh_chance(r, 50); cur = "p_socket_set_blocking"; p_socket_set_blocking(s, b); m->blocking = b; check_getters(i, cur); break; }
	case 1: { static const int ts[] = { -5, 0, 1, 10, 30, 80 }; int t = ts[vh_below(r, 6)]; cur = "p_socket_set_timeout"; p_socket_set_timeout(s, t); m->timeout = t < 0 ? 0 : t; check_getters(i, cur); break; }
	case 2: { int k = vh_chance(r, 50), real = -1; socklen_t l = sizeof real; cur = "p_socket_set_keepalive"; p_socket_set_keepalive(s, k);
		if (!m->closed) { if (getsockopt(p_socket_get_fd(s), SOL_SOCKET, SO_KEEPALIVE, &real, &l) == 0) { if ((real != 0) != k) viol("keepalive-not-applied", "SO_KEEPALIVE on the descriptor is %d after set_keepalive(%d)", real, k); m->keepalive = k; } }
		check_getters(i, cur); break; }
	case 3: { int b = 1 + (int)vh_below(r, 9); cur = "p_socket_set_listen_backlog"; p_socket_set_listen_backlog(s, b); if (!m->listening) m->backlog = b; check_getters(i, cur); break; }
	case 4: { PSocketAddress *a = loop_addr(m->v6, 0); pboolean ok; cur = "p_socket_bind"; RESET_T(); ok = p_socket_bind(s, a, vh_chance(r, 50), &err);
		if (m->closed) closed_call_check(i, cur, !ok, err); else if (ok) m->bound = 1; else if (!m->touched) viol("bind-failed", "bind to loopback:0 failed: %s native %d (v6=%d dgram=%d)", err ? p_error_get_message(err) : "", err ? p_error_get_native_code(err) : 0, m->v6, m->dgram);
		m->touched = 1; p_socket_address_free(a); check_getters(i, cur); break; }
	case 5: { pboolean ok; cur = "p_socket_listen"; RESET_T(); ok = p_socket_listen(s, &err);
		if (m->closed) closed_call_check(i, cur, !ok, err); else if (ok) { m->listening = 1; m->bound = 1; } else if (!m->dgram && !m->connected && !m->touched) viol("listen-failed", "listen failed: %s", err ? p_error_get_message(err) : "");
		m->touched = 1; check_getters(i, cur); break; }
	case 6: case 7: { m->touched = 1; /* connect to a listener of the world (same family) or to a closed port */
		int tgt = -1; PSocketAddress *a = NULL, *la; pboolean ok; int closed_port = vh_chance(r, 15);
		cur = "p_socket_connect";
		if (m->closed) { a = loop_addr(m->v6, 9); RESET_T(); ok = p_socket_connect(s, a, &err); closed_call_check(i, cur, !ok, err); p_socket_address_free(a); check_getters(i, cur); break; }
		if (m->dgram || m->connected || m->listening || m->shut) { st_skipped++; break; }
		for (j = 0; j < MAXS; j++) if (w[j].used && !w[j].closed && w[j].listening && w[j].v6 == m->v6 && !w[j].dgram && w[j].pending < w[j].backlog && w[j].pending < 6 && j != i && !w[j].shut) { tgt = j; break; }
		if (closed_port || tgt < 0) {
			/* find a closed port: bind+close a raw socket */
			int fd = __real_socket(m->v6 ? AF_INET6 : AF_INET, SOCK_STREAM, 0); struct sockaddr_storage ss; socklen_t sl = sizeof ss; int port = 0;
			memset(&ss, 0, sizeof ss); ss.ss_family = (sa_family_t)(m->v6 ? AF_INET6 : AF_INET); if (m->v6) ((struct sockaddr_in6 *)&ss)->sin6_addr = in6addr_loopback; else ((struct sockaddr_in *)&ss)->sin_addr.s_addr = htonl(INADDR_LOOPBACK);
			if (fd >= 0 && bind(fd, (struct sockaddr *)&ss, m->v6 ? sizeof(struct sockaddr_in6) : sizeof(struct sockaddr_in)) == 0 && getsockname(fd, (struct sockaddr *)&ss, &sl) == 0) port = ntohs(m->v6 ? ((struct sockaddr_in6 *)&ss)->sin6_port : ((struct sockaddr_in *)&ss)->sin_port);
			/* the reserving socket stays bound (not listening) while we connect: nobody else can obtain the port in between, the connection is refused */
			if (!port) { if (fd >= 0) __real_close(fd); st_skipped++; break; }
			a = loop_addr(m->v6, port); RESET_T(); ok = p_socket_connect(s, a, &err);
			__real_close(fd);
			if (ok) viol("connect-closed-port-succeeded", "connect to a closed port returned TRUE");
			else if (!m->blocking) { if (w_t_polls) viol("nonblocking-waited", "non-blocking connect called poll() %ld times", w_t_polls); }
			p_socket_address_free(a); m->bound = 1; check_getters(i, cur);
			/* the socket is unusable for a further connect on Linux after a refused one: retire it */
			p_socket_close(s, NULL); m->closed = 1; m->connected = 0; m->listening = 0; check_getters(i, "close-after-refused");
			break;
		}
		la = p_socket_get_local_address(w[tgt].s, NULL); if (!la) { st_skipped++; break; }
		a = loop_addr(m->v6, p_socket_address_get_port(la)); p_socket_address_free(la);
		RESET_T(); ok = p_socket_connect(s, a, &err); st_connects++;
		if (ok) { m->connected = 1; }
		else if (!m->blocking) { int code = err ? p_error_get_code(err) : 0; st_nonblock++; if (w_t_polls) viol("nonblocking-waited", "non-blocking connect called poll() %ld times", w_t_polls);
			if (code != P_ERROR_IO_IN_PROGRESS && code != P_ERROR_IO_WOULD_BLOCK) viol("nonblocking-wrong-error", "non-blocking connect to a listener failed with code %d", code);
			else { /* completes in the background on loopback */ PError *e2 = NULL; int t; for (t = 0; t < 2000; t++) { if (p_socket_check_connect_result(s, &e2)) break; p_error_free(e2); e2 = NULL; usleep(500); } if (p_socket_is_connected(s)) m->connected = 1; else { st_skipped++; } } }
		else viol("connect-failed", "blocking connect to a listening loopback socket failed: code %d native %d", err ? p_error_get_code(err) : 0, err ? p_error_get_native_code(err) : 0);
		m->bound = 1;
		if (m->connected) { w[tgt].pend_idx[w[tgt].pending] = i; w[tgt].pending++; m->lst = tgt; }
		p_socket_address_free(a); check_getters(i, cur); break; }
	case 8: { /* accept */
		PSocket *ac; int k = -1;
		cur = "p_socket_accept";
		if (m->closed) { RESET_T(); ac = p_socket_accept(s, &err); closed_call_check(i, cur, ac == NULL, err); p_socket_free(ac); check_getters(i, cur); break; }
		if (!m->listening || m->shut) { st_skipped++; break; }
		if (m->pending == 0) {
			if (m->blocking && m->timeout == 0) { st_skipped++; break; }     /* would wait forever */
			maybe_interrupt_poll(m, r);
			RESET_T(); t0 = vh_now_ns(); ac = p_socket_accept(s, &err); el = (double)(vh_now_ns() - t0) / 1e6; w_plan(W_POLL, WM_OFF, 0, 1, 0, 0);
			expect_cannot_proceed(i, "accept", ac != NULL, err, el); p_socket_free(ac); check_getters(i, cur); break;
		}
		for (j = 0; j < MAXS; j++) if (!w[j].used) { k = j; break; }
		if (k < 0) { st_skipped++; break; }
		/* the connection the readiness report was about may be gone when accept() runs (another waiter took it): the kernel then says EAGAIN, and a
		 * blocking socket has to go on waiting instead of reporting would-block; here a connection IS pending, so the call must succeed */
		if (m->blocking && vh_chance(r, 30)) { w_plan(W_ACCEPT, WM_AT, w_calls(W_ACCEPT) + 1, 1, WK_EAGAIN, vh_next(r)); st_accept_eagain++; }
		RESET_T(); ac = p_socket_accept(s, &err); st_accepts++; w_plan(W_ACCEPT, WM_OFF, 0, 1, 0, 0);
		if (!ac) { if (m->blocking) viol("accept-failed", "accept with %d established peers failed: code %d", m->pending, err ? p_error_get_code(err) : 0); else st_skipped++; check_getters(i, cur); break; }
		{ MS *n = &w[k]; int real = 0; socklen_t l = sizeof real; int pi, pos = 0, q; PSocketAddress *ra = p_socket_get_remote_address(ac, NULL); int rport = ra ? p_socket_address_get_port(ra) : -1;
		  /* identify the real peer by its port (the kernel need not hand connections out in connect() order) */
		  for (q = 0; q < m->pending; q++) { PSocketAddress *cl = w[m->pend_idx[q]].closed ? NULL : p_socket_get_local_address(w[m->pend_idx[q]].s, NULL); if (cl && p_socket_address_get_port(cl) == rport) pos = q; p_socket_address_free(cl); }
		  p_socket_address_free(ra);
		  pi = m->pend_idx[pos];
		  memmove(m->pend_idx + pos, m->pend_idx + pos + 1, sizeof(int) * (size_t)(7 - pos)); m->pending--;
		  memset(n, 0, sizeof *n); n->s = ac; n->used = 1; n->v6 = m->v6; n->dgram = 0; n->blocking = 1; n->timeout = 0; n->backlog = 5; n->connected = 1; n->bound = 1; n->peer = pi; n->decoy = -1; n->touched = 1; n->lst = -1; n->fd_at_open = p_socket_get_fd(ac);
		  getsockopt(p_socket_get_fd(ac), SOL_SOCKET, SO_KEEPALIVE, &real, &l); n->keepalive = real != 0;
		  if (w[pi].used) w[pi].peer = k;
		  check_cloexec(ac, "accepted socket"); check_getters(k, "accept(new socket)");
		  if (p_socket_get_protocol(ac) != P_SOCKET_PROTOCOL_TCP) viol("getter-protocol", "accepted socket protocol %d", p_socket_get_protocol(ac)); }
		check_getters(i, cur); break; }
	case 9: { /* send */
		pssize n; int can = healthy(i);
		cur = "p_socket_send"; m->touched = 1;
		if (!m->closed && !can) { st_skipped++; break; }     /* could wait forever / would put unaccounted bytes into a queued connection */
		RESET_T(); n = p_socket_send(s, "0123456789", 10, &err);
		if (m->closed) { closed_call_check(i, cur, n < 0, err); check_getters(i, cur); break; }
		if (can) { if (n != 10) viol("send-failed", "send on a connected socket returned %zd (code %d)", (ssize_t)n, err ? p_error_get_code(err) : 0); else w[m->peer].inflight += 10; }
		check_getters(i, cur); break; }
	case 10: case 11: { /* receive */
		pssize n; int from = op == 11; PSocketAddress *fa = NULL; m->touched = 1;
		cur = from ? "p_socket_receive_from" : "p_socket_receive";
		if (m->closed) { RESET_T(); n = from ? p_socket_receive_from(s, &fa, buf, sizeof buf, &err) : p_socket_receive(s, buf, sizeof buf, &err); closed_call_check(i, cur, n < 0, err); p_socket_address_free(fa); check_getters(i, cur); break; }
		if (m->listening || m->shut) { st_skipped++; break; }           /* states after shutdown are probed separately (run_odd_states) */
		if (m->dgram ? !m->bound : !(healthy(i) || queued(i))) { st_skipped++; break; }
		if (m->inflight > 0) {
			RESET_T(); n = from ? p_socket_receive_from(s, &fa, buf, sizeof buf, &err) : p_socket_receive(s, buf, sizeof buf, &err);
			if (n <= 0) {
				/* bytes accepted by the peer's send need not have reached this socket yet (Nagle holds a small segment back until the previous one
				 * is acknowledged, delayed ACK up to 40 ms): a bounded wait may legitimately expire; only an unbounded blocking receive must deliver */
				int code = err ? p_error_get_code(err) : 0;
				if (m->blocking && m->timeout > 0 && code == P_ERROR_IO_TIMED_OUT) st_timed_late_data++;
				else if (m->blocking) viol("receive-failed", "receive with %ld bytes in flight returned %zd (code %d native %d) [dgram=%d v6=%d timeout=%d] ops: %s", m->inflight, (ssize_t)n, code, err ? p_error_get_native_code(err) : 0, m->dgram, m->v6, m->timeout, oplog); }
			else { if (memcmp(buf, "01234567890123456789012345678901234567890123456789012345678901234", (size_t)n)) viol("receive-wrong-data", "received bytes differ"); m->inflight -= n; }
		} else {
			if (m->blocking && m->timeout == 0) { st_skipped++; break; }
			maybe_interrupt_poll(m, r);
			RESET_T(); t0 = vh_now_ns(); n = from ? p_socket_receive_from(s, &fa, buf, sizeof buf, &err) : p_socket_receive(s, buf, sizeof buf, &err); el = (double)(vh_now_ns() - t0) / 1e6; w_plan(W_POLL, WM_OFF, 0, 1, 0, 0);
			expect_cannot_proceed(i, from ? "receive_from" : "receive", n >= 0, err, el);
		}
		p_socket_address_free(fa); check_getters(i, cur); break; }
	case 12: { /* shutdown */
		int rd = vh_chance(r, 50), wr = vh_chance(r, 50); pboolean ok; m->touched = 1;
		int was_healthy = healthy(i);
		cur = "p_socket_shutdown"; RESET_T(); ok = p_socket_shutdown(s, rd, wr, &err); if (rd || wr) m->shut = 1;
		if (m->closed) closed_call_check(i, cur, !ok, err);
		else if (ok && rd && wr) m->connected = 0;
		else if (!ok && was_healthy && (rd || wr)) viol("shutdown-failed", "shutdown on a connected socket failed: code %d", err ? p_error_get_code(err) : 0);
		if (ok && (rd || wr) && m->peer >= 0) { /* peer may now see EOF / errors: stop judging data on this pair */ w[m->peer].inflight = 0; m->inflight = 0; if (w[m->peer].used) w[m->peer].peer = -2; m->peer = -2; }
		check_getters(i, cur); break; }
	case 13: { /* close (idempotent) */
		pboolean ok; long c0 = w_calls(W_CLOSE);
		cur = "p_socket_close"; RESET_T(); ok = p_socket_close(s, &err);
		if (!ok) viol("close-failed", "close returned FALSE");
		if (m->closed) { if (w_calls(W_CLOSE) != c0 || w_t_fdcalls) viol("close-not-idempotent", "second p_socket_close called close() again / touched a descriptor"); }
		else { if (w_calls(W_CLOSE) != c0 + 1) viol("close-count", "p_socket_close made %ld close() calls", w_calls(W_CLOSE) - c0);
			m->closed = 1; m->connected = 0; m->listening = 0;
			m->decoy = open("/dev/null", O_RDONLY);      /* usually reuses the number just released */
			if (m->peer >= 0 && w[m->peer].used) { w[m->peer].inflight = 0; w[m->peer].peer = -2; } for (j = 0; j < m->pending; j++) if (w[m->pend_idx[j]].used) w[m->pend_idx[j]].peer = -2; m->pending = 0; }
		check_getters(i, cur); break; }
	case 14: { /* send_to (datagram to a bound datagram socket of the world, or on a closed socket) */
		PSocketAddress *a, *la; pssize n; int tgt = -1;
		cur = "p_socket_send_to"; m->touched = 1;
		if (m->closed) { a = loop_addr(m->v6, 9); RESET_T(); n = p_socket_send_to(s, a, "x", 1, &err); closed_call_check(i, cur, n < 0, err); p_socket_address_free(a); check_getters(i, cur); break; }
		if (!m->dgram || m->shut) { st_skipped++; break; }
		for (j = 0; j < MAXS; j++) if (w[j].used && !w[j].closed && w[j].dgram && w[j].bound && w[j].v6 == m->v6 && !w[j].shut) { tgt = j; break; }
		if (tgt < 0) { st_skipped++; break; }
		la = p_socket_get_local_address(w[tgt].s, NULL); if (!la) { st_skipped++; break; }
		a = loop_addr(m->v6, p_socket_address_get_port(la)); p_socket_address_free(la);
		RESET_T(); n = p_socket_send_to(s, a, "0123456789", 10, &err);
		if (n != 10) viol("send-failed", "send_to a bound loopback datagram socket returned %zd (code %d)", (ssize_t)n, err ? p_error_get_code(err) : 0); else { w[tgt].inflight += 10; m->bound = 1; }
		p_socket_address_free(a); check_getters(i, cur); break; }
	default: { /* io_condition_wait on a closed socket / cheap getters */
		if (m->closed) { pboolean ok; cur = "p_socket_io_condition_wait"; RESET_T(); ok = p_socket_io_condition_wait(s, P_SOCKET_IO_CONDITION_POLLIN, &err); closed_call_check(i, cur, !ok, err); }
		check_getters(i, "getters"); break; }
	}
	p_error_free(err);
}

static void free_world(void) {
	int i; long d0, d1, o, c, st, dd, un;
	w_fd_stats(&o, &c, &st, &d0, &un);
	for (i = 0; i < MAXS; i++) if (w[i].used) { cur = "p_socket_free"; p_socket_free(w[i].s); if (w[i].decoy >= 0) __real_close(w[i].decoy); w[i].used = 0; }
	w_fd_stats(&o, &c, &st, &d1, &un); dd = d1 - d0;
	if (dd) viol("double-close", "freeing the sockets closed %ld descriptors a second time", dd);
	if (st) { viol("descriptor-left-open", "%ld socket descriptors still open after every socket was freed", st); }
}

static void run_sequences(vh_rng *r, long long n, int maxcalls) {
	long long q;
	for (q = 0; q < n && vh_nviol < vh_max_viol; q++) {
		int nsock = 2 + (int)vh_below(r, 3), i, c, calls = 5 + (int)vh_below(r, (uint64_t)maxcalls);
		memset(w, 0, sizeof w); oplen = 0; oplog[0] = 0;
		paired = vh_chance(r, 65);
		if (paired) { fam_force = vh_chance(r, 40); dgram_force = vh_chance(r, 20); } else { fam_force = dgram_force = -1; }
		for (i = 0; i < nsock; i++) if (!new_sock(i, r)) break;
		fam_force = dgram_force = -1;
		if (paired && w[0].used) { force_op = 4; do_op(0, r); if (!w[0].dgram) { force_op = 5; do_op(0, r); } else if (w[1].used) { force_op = 4; do_op(1, r); } force_op = -1; }
		for (c = 0; c < calls && vh_nviol < vh_max_viol; c++) { i = (int)vh_below(r, MAXS); if (!w[i].used) i = (int)vh_below(r, (uint64_t)nsock); if (w[i].used) do_op(i, r); }
		free_world(); st_seq++;
	}
}

/* ---- deterministic sub-scenarios ---- */
typedef struct { PSocketAddress *addr; volatile int flag; int delay_ms; PSocket *out; const char *data; PSocket *via; } Hlp;
static void *hlp_connect(void *a) { Hlp *h = a; PSocket *c; usleep((useconds_t)h->delay_ms * 1000); __atomic_store_n(&h->flag, 1, __ATOMIC_SEQ_CST); c = p_socket_new(p_socket_address_get_family(h->addr), P_SOCKET_TYPE_STREAM, P_SOCKET_PROTOCOL_TCP, NULL); if (c && p_socket_connect(c, h->addr, NULL)) h->out = c; else p_socket_free(c); return NULL; }
static void *hlp_send(void *a) { Hlp *h = a; usleep((useconds_t)h->delay_ms * 1000); __atomic_store_n(&h->flag, 1, __ATOMIC_SEQ_CST); p_socket_send(h->via, h->data, strlen(h->data), NULL); return NULL; }

static void run_fixed(vh_rng *r, int n) {
	int k;
	for (k = 0; k < n && vh_nviol < vh_max_viol; k++) {
		int v6 = k & 1; PSocketAddress *la = loop_addr(v6, 0), *bound; PSocket *ls = p_socket_new(v6 ? P_SOCKET_FAMILY_INET6 : P_SOCKET_FAMILY_INET, P_SOCKET_TYPE_STREAM, P_SOCKET_PROTOCOL_TCP, NULL), *ac; Hlp h; pthread_t t; PError *err = NULL; char buf[32]; pssize got;
		if (!ls || !la || !p_socket_bind(ls, la, TRUE, NULL) || !p_socket_listen(ls, NULL)) { p_socket_free(ls); p_socket_address_free(la); st_skipped++; continue; }
		bound = p_socket_get_local_address(ls, NULL);
		/* untimed blocking accept waits until it can proceed */
		memset(&h, 0, sizeof h); h.addr = bound; h.delay_ms = 5 + (int)vh_below(r, 40); pthread_create(&t, NULL, hlp_connect, &h);
		cur = "p_socket_accept"; ac = p_socket_accept(ls, &err);
		if (!ac) viol("untimed-blocking-failed", "blocking accept without timeout failed: code %d", err ? p_error_get_code(err) : 0); else if (!__atomic_load_n(&h.flag, __ATOMIC_SEQ_CST)) viol("untimed-returned-early", "blocking accept returned before a peer connected");
		pthread_join(t, NULL); p_error_free(err); err = NULL; st_untimed++;
		if (ac && h.out) {
			Hlp h2; memset(&h2, 0, sizeof h2); h2.via = h.out; h2.data = "late"; h2.delay_ms = 5 + (int)vh_below(r, 40); pthread_create(&t, NULL, hlp_send, &h2);
			cur = "p_socket_receive"; got = p_socket_receive(ac, buf, sizeof buf, &err);
			if (got <= 0) viol("untimed-blocking-failed", "blocking receive without timeout failed: code %d", err ? p_error_get_code(err) : 0); else if (!__atomic_load_n(&h2.flag, __ATOMIC_SEQ_CST)) viol("untimed-returned-early", "blocking receive returned before data was sent");
			pthread_join(t, NULL); p_error_free(err); err = NULL; st_untimed++;
		}
		p_socket_free(h.out); p_socket_free(ac); p_socket_free(ls); p_socket_address_free(la);
		/* timed connect that cannot proceed: listener whose accept queue is full (listen(0) + pending peers) */
		{
			PSocket *l0 = p_socket_new(v6 ? P_SOCKET_FAMILY_INET6 : P_SOCKET_FAMILY_INET, P_SOCKET_TYPE_STREAM, P_SOCKET_PROTOCOL_TCP, NULL), *fill[4] = { 0 }, *c; PSocketAddress *a0 = loop_addr(v6, 0), *b0 = NULL; int f, T = (int[]){ 10, 50, 120 }[vh_below(r, 3)]; uint64_t t0; double el; pboolean ok;
			if (l0 && a0) { p_socket_set_listen_backlog(l0, 0); if (p_socket_bind(l0, a0, TRUE, NULL) && p_socket_listen(l0, NULL)) b0 = p_socket_get_local_address(l0, NULL); }
			if (b0) {
				for (f = 0; f < 4; f++) { fill[f] = p_socket_new(v6 ? P_SOCKET_FAMILY_INET6 : P_SOCKET_FAMILY_INET, P_SOCKET_TYPE_STREAM, P_SOCKET_PROTOCOL_TCP, NULL); if (fill[f]) { p_socket_set_blocking(fill[f], FALSE); p_socket_connect(fill[f], b0, NULL); } }
				usleep(2000);
				c = p_socket_new(v6 ? P_SOCKET_FAMILY_INET6 : P_SOCKET_FAMILY_INET, P_SOCKET_TYPE_STREAM, P_SOCKET_PROTOCOL_TCP, NULL);
				if (c) { p_socket_set_timeout(c, T); cur = "p_socket_connect"; t0 = vh_now_ns(); ok = p_socket_connect(c, b0, &err); el = (double)(vh_now_ns() - t0) / 1e6;
					if (ok) st_skipped++;       /* precondition not produced: the queue accepted it */
					else { st_timed++; if (!err || p_error_get_code(err) != P_ERROR_IO_TIMED_OUT) viol("timed-wrong-error", "connect with timeout %d ms to a listener with a full queue failed with code %d (native %d)", T, err ? p_error_get_code(err) : 0, err ? p_error_get_native_code(err) : 0); else if (el < T - 1.0) viol("timed-out-early", "connect with timeout %d ms failed after %.2f ms", T, el); }
					p_error_free(err); err = NULL; p_socket_free(c); }
				for (f = 0; f < 4; f++) p_socket_free(fill[f]);
			} else st_skipped++;
			p_socket_address_free(b0); p_socket_address_free(a0); p_socket_free(l0);
		}
		p_socket_address_free(bound);
	}
}

/* ---- states in which the kernel reports readiness that never materialises: every timed call must still return ---- */
#include <sys/wait.h>
#include <signal.h>
static long long st_odd;
static void run_odd_states(void) {
	/* state: socket kind + preparation; call: which timed call is made */
	static const char *kinds[] = { "datagram", "listener", "unconnected-stream", "peer-closed-stream" };
	static const char *preps[] = { "plain", "after-shutdown-read", "after-shutdown-write", "after-shutdown-both" };
	static const char *calls[] = { "receive", "receive_from", "accept", "send", "send_to" };
	int kind, prep, call, np = 0, p; static pid_t pids[64]; static char pnames[64][96]; int done[64];
	for (kind = 0; kind < 4; kind++) for (prep = 0; prep < 4; prep++) for (call = 0; call < 5; call++) {
		pid_t pid; char name[96];
		if ((call == 2) != (kind == 1)) continue;                 /* accept only on listeners, listeners only accept */
		if (kind == 0 && prep == 0 && call <= 1) ;                /* plain datagram receive: must time out */
		snprintf(name, sizeof name, "%s-%s:%s", kinds[kind], preps[prep], calls[call]);
		fflush(stdout);
		pid = fork();
		if (pid == 0) {
			PSocketAddress *la = loop_addr(0, 0), *ba = NULL, *fa = NULL; PSocket *s, *c = NULL, *t; char buf[16]; PError *err = NULL; int dg = kind == 0, j;
			s = p_socket_new(P_SOCKET_FAMILY_INET, dg ? P_SOCKET_TYPE_DATAGRAM : P_SOCKET_TYPE_STREAM, dg ? P_SOCKET_PROTOCOL_UDP : P_SOCKET_PROTOCOL_TCP, NULL);
			if (!s) _exit(0);
			p_socket_set_timeout(s, 20); t = s;
			if (kind != 2) { if (!p_socket_bind(s, la, TRUE, NULL)) _exit(0); ba = p_socket_get_local_address(s, NULL); }
			if (kind == 1 || kind == 3) { if (!p_socket_listen(s, NULL)) _exit(0); }
			if (kind == 3) { c = p_socket_new(P_SOCKET_FAMILY_INET, P_SOCKET_TYPE_STREAM, P_SOCKET_PROTOCOL_TCP, NULL); p_socket_set_timeout(c, 500); if (!c || !p_socket_connect(c, ba, NULL)) _exit(0); t = p_socket_accept(s, NULL); if (!t) _exit(0); p_socket_set_timeout(t, 20); p_socket_free(c); usleep(2000); }
			if (prep) (void)p_socket_shutdown(t, prep == 1 || prep == 3, prep == 2 || prep == 3, NULL);
			switch (call) {
			case 0: (void)p_socket_receive(t, buf, sizeof buf, &err); break;
			case 1: (void)p_socket_receive_from(t, &fa, buf, sizeof buf, &err); break;
			case 2: (void)p_socket_accept(t, &err); break;
			case 3: for (j = 0; j < 20; j++) { if (p_socket_send(t, "0123456789", 10, &err) < 0) break; p_error_free(err); err = NULL; } break;
			case 4: if (ba) (void)p_socket_send_to(t, ba, "x", 1, &err); break;
			}
			_exit(0);
		}
		pids[np] = pid; snprintf(pnames[np], 96, "%s", name); done[np] = 0; np++;
	}
	{
		int waited, left = np, status;
		cur = "timed-call";
		for (waited = 0; waited < 500 && left; waited++) {
			for (p = 0; p < np; p++) if (!done[p] && waitpid(pids[p], &status, WNOHANG) == pids[p]) { done[p] = 1; left--; st_odd++;
				if (WIFSIGNALED(status)) { char key[200]; snprintf(key, sizeof key, "killed-by-signal state=%s", pnames[p]); viol(key, "process killed by signal %d (%s)", WTERMSIG(status), pnames[p]); } }
			if (left) usleep(10000);
		}
		for (p = 0; p < np; p++) if (!done[p]) { char key[200]; kill(pids[p], SIGKILL); waitpid(pids[p], &status, 0); st_odd++; snprintf(key, sizeof key, "never-returns state=%s", pnames[p]);
			viol(key, "a call with a 20 ms timeout (%s) did not return within 5 s: it spins between poll() reporting readiness and the transfer reporting would-block", pnames[p]); }
	}
}

/* ---- send into a full pipe: non-blocking => would-block at once (no poll); timed => timed-out not before T ---- */
static long long st_fullpipe;
/* A connect that can neither complete nor be refused within the timeout: the listener's accept queue is full and nobody accepts, so the
 * kernel drops further SYNs.  A blocking socket with timeout T must fail with timed-out after >= T and stay unconnected; a non-blocking
 * one must report in-progress at once.  (If the kernel cannot be brought into that state the case is skipped.) */
static long long st_connect_stalls;
static void run_connect_stall(void) {
	int mode;
	for (mode = 0; mode < 4; mode++) {             /* bit0: v6, bit1: non-blocking instead of timed-blocking */
		pid_t pid; int status, waited = 0; int v6 = mode & 1, nonblk = (mode >> 1) & 1;
		fflush(stdout);
		pid = fork();
		if (pid == 0) {
			PSocketAddress *la = loop_addr(v6, 0), *ba; PSocket *ls, *cl; PError *err = NULL; int i, stalled = 0, raw[16], nraw = 0; struct sockaddr_storage ss; socklen_t sl = sizeof ss; pboolean ok; uint64_t t0; double el;
			ls = p_socket_new(v6 ? P_SOCKET_FAMILY_INET6 : P_SOCKET_FAMILY_INET, P_SOCKET_TYPE_STREAM, P_SOCKET_PROTOCOL_TCP, NULL);
			if (!ls) _exit(9);
			p_socket_set_listen_backlog(ls, 1);
			if (!p_socket_bind(ls, la, TRUE, NULL) || !p_socket_listen(ls, NULL)) _exit(9);
			ba = p_socket_get_local_address(ls, NULL); if (!ba) _exit(9);
			if (getsockname(p_socket_get_fd(ls), (struct sockaddr *)&ss, &sl)) _exit(9);
			/* fill the accept queue with raw non-blocking connects until one stays pending */
			for (i = 0; i < 16 && !stalled; i++) {
				int fd = __real_socket(v6 ? AF_INET6 : AF_INET, SOCK_STREAM | SOCK_NONBLOCK, 0), rc, t; struct pollfd pf;
				if (fd < 0) _exit(9);
				raw[nraw++] = fd; rc = connect(fd, (struct sockaddr *)&ss, sl);
				if (rc == 0) continue;
				if (errno != EINPROGRESS) _exit(9);
				pf.fd = fd; pf.events = POLLOUT; pf.revents = 0; t = __real_poll(&pf, 1, 250);
				if (t == 0) stalled = 1;                     /* still in progress after 250 ms: the queue is full */
			}
			if (!stalled) _exit(5);
			cl = p_socket_new(v6 ? P_SOCKET_FAMILY_INET6 : P_SOCKET_FAMILY_INET, P_SOCKET_TYPE_STREAM, P_SOCKET_PROTOCOL_TCP, NULL); if (!cl) _exit(9);
			if (nonblk) p_socket_set_blocking(cl, FALSE); else p_socket_set_timeout(cl, 150);
			w_t_polls = 0; t0 = vh_now_ns(); ok = p_socket_connect(cl, ba, &err); el = (double)(vh_now_ns() - t0) / 1e6;
			if (ok) _exit(p_socket_is_connected(cl) ? 10 : 11);
			if (p_socket_is_connected(cl)) _exit(12);
			if (nonblk) { if (!err || (p_error_get_code(err) != P_ERROR_IO_IN_PROGRESS && p_error_get_code(err) != P_ERROR_IO_WOULD_BLOCK)) _exit(6); if (w_t_polls) _exit(7); _exit(0); }
			if (!err || p_error_get_code(err) != P_ERROR_IO_TIMED_OUT) _exit(6);
			if (el < 150 - 1.0) _exit(8);
			_exit(0);
		}
		while (waited < 1500) { if (waitpid(pid, &status, WNOHANG) == pid) break; usleep(10000); waited++; }
		st_connect_stalls++;
		cur = "p_socket_connect";
		if (waited >= 1500) { kill(pid, SIGKILL); waitpid(pid, &status, 0); viol("connect-stalled-never-returns", "%s connect to a listener with a full accept queue did not return within 15 s", nonblk ? "a non-blocking" : "a timed (150 ms)"); }
		else if (WIFSIGNALED(status)) viol("killed-by-signal", "connect to a listener with a full accept queue killed the process with signal %d", WTERMSIG(status));
		else switch (WEXITSTATUS(status)) {
			case 0: break;
			case 5: case 9: st_skipped++; st_connect_stalls--; break;             /* the state could not be set up */
			case 6: viol(nonblk ? "nonblocking-wrong-error" : "timed-wrong-error", "connect that cannot complete failed with another error than %s", nonblk ? "in-progress" : "timed-out"); break;
			case 7: viol("nonblocking-waited", "non-blocking connect called poll()"); break;
			case 8: viol("timed-out-early", "timed connect that cannot complete failed before its 150 ms timeout"); break;
			case 10: case 11: viol("connect-succeeded-without-handshake", "connect to a listener whose accept queue is full returned TRUE although the handshake cannot have completed (is_connected=%d)", WEXITSTATUS(status) == 10); break;
			case 12: viol("getter-connected", "after a failed connect is_connected is TRUE"); break;
			default: viol("child-failed", "connect-stall child exit %d", WEXITSTATUS(status)); break;
		}
	}
}
static void run_full_pipe(void) {
	int mode;
	for (mode = 0; mode < 4; mode++) {             /* bit0: v6, bit1: timed-blocking instead of non-blocking */
		pid_t pid; int status, waited = 0; int v6 = mode & 1, timed = (mode >> 1) & 1;
		fflush(stdout);
		pid = fork();
		if (pid == 0) {
			PSocketAddress *la = loop_addr(v6, 0), *ba; PSocket *ls, *cl, *ac; static char chunk[32768]; int i; PError *err = NULL;
			ls = p_socket_new(v6 ? P_SOCKET_FAMILY_INET6 : P_SOCKET_FAMILY_INET, P_SOCKET_TYPE_STREAM, P_SOCKET_PROTOCOL_TCP, NULL);
			if (!ls || !p_socket_bind(ls, la, TRUE, NULL) || !p_socket_listen(ls, NULL)) _exit(9);
			ba = p_socket_get_local_address(ls, NULL);
			cl = p_socket_new(v6 ? P_SOCKET_FAMILY_INET6 : P_SOCKET_FAMILY_INET, P_SOCKET_TYPE_STREAM, P_SOCKET_PROTOCOL_TCP, NULL);
			p_socket_set_timeout(cl, 2000); p_socket_set_timeout(ls, 2000);
			if (!cl || !p_socket_connect(cl, ba, NULL)) _exit(9);
			ac = p_socket_accept(ls, NULL); if (!ac) _exit(9);      /* the peer never reads */
			p_socket_set_buffer_size(cl, P_SOCKET_DIRECTION_SND, 8192, NULL); p_socket_set_buffer_size(ac, P_SOCKET_DIRECTION_RCV, 8192, NULL);
			if (timed) p_socket_set_timeout(cl, 60); else p_socket_set_blocking(cl, FALSE);
			for (i = 0; i < 4096; i++) {
				pssize n; uint64_t t0 = vh_now_ns(); double el;
				w_t_polls = 0; n = p_socket_send(cl, chunk, sizeof chunk, &err); el = (double)(vh_now_ns() - t0) / 1e6;
				if (n > 0) { p_error_free(err); err = NULL; continue; }
				if (!timed) { if (!err || p_error_get_code(err) != P_ERROR_IO_WOULD_BLOCK) _exit(6); if (w_t_polls) _exit(7); _exit(0); }
				if (!err || p_error_get_code(err) != P_ERROR_IO_TIMED_OUT) _exit(6); if (el < 60 - 1.0) _exit(8); _exit(0);
			}
			_exit(5);
		}
		while (waited < 1500) { if (waitpid(pid, &status, WNOHANG) == pid) break; usleep(10000); waited++; }
		st_fullpipe++;
		cur = "p_socket_send";
		if (waited >= 1500) { kill(pid, SIGKILL); waitpid(pid, &status, 0); viol(timed ? "timed-send-full-pipe-never-returns" : "nonblocking-send-full-pipe-never-returns", "%s p_socket_send into a connection whose peer does not read did not return within 15 s", timed ? "a timed (60 ms)" : "a non-blocking"); }
		else if (WIFSIGNALED(status)) viol("killed-by-signal", "send into a full pipe killed the process with signal %d", WTERMSIG(status));
		else switch (WEXITSTATUS(status)) {
			case 0: case 9: break;
			case 5: st_skipped++; break;             /* the pipe never filled */
			case 6: viol(timed ? "timed-wrong-error" : "nonblocking-wrong-error", "send into a full pipe failed with another error than %s", timed ? "timed-out" : "would-block"); break;
			case 7: viol("nonblocking-waited", "non-blocking send into a full pipe called poll()"); break;
			case 8: viol("timed-out-early", "timed send into a full pipe failed before its 60 ms timeout"); break;
		}
	}
}

static int vh_isolated;
int main(int argc, char **argv) {
	vh_rng r; double t0 = vh_now(); long long n = vh_argi(argc, argv, "--n", 300); int fixed = (int)vh_argi(argc, argv, "--fixed", 10);
	vh_seed(&r, (uint64_t)vh_argi(argc, argv, "--seed", 1) * 0x8CB92BA72F3D8DD7ULL);
	vh_isolated = vh_private_net();
	p_libsys_init();
	run_sequences(&r, n, (int)vh_argi(argc, argv, "--maxcalls", 30));
	run_fixed(&r, fixed);
	if (!vh_flag(argc, argv, "--no-odd")) { run_odd_states(); run_full_pipe(); run_connect_stall(); }
	p_libsys_shutdown();
	printf("{\"ev\":\"stats\",\"sequences\":%lld,\"calls\":%lld,\"distinct_states\":%zu,\"distinct_transitions\":%zu,\"timed_cases\":%lld,\"timed_cases_with_interrupted_poll\":%lld,\"nonblocking_cases\":%lld,\"closed_socket_calls\":%lld,\"accepts\":%lld,\"connects\":%lld,"
	       "\"untimed_blocking\":%lld,\"odd_state_probes\":%lld,\"full_pipe_cases\":%lld,\"connect_stall_cases\":%lld,\"cloexec_checked\":%lld,\"skipped\":%lld,\"viol\":%d,\"wall\":%.2f}\n", st_seq, st_calls, scnt, tcnt, st_timed, st_timed_eintr, st_nonblock, st_closed_calls, st_accepts, st_connects, st_untimed, st_odd, st_fullpipe, st_connect_stalls, st_cloexec_checked, st_skipped, vh_nviol, vh_now() - t0);
	return 0;
}

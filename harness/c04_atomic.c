/* c04_atomic: p_atomic_* value oracle, indivisibility under contention, litmus tests (C04).
 *   --mode value   single-threaded: every op x boundary operand pairs (exhaustive) + random pairs vs C unsigned arithmetic
 *   --mode conc    tickets / strides / refcount / CAS counter / bit ownership / tagged pointer words, T threads
 *   --mode litmus  store-buffering (set/get as full barriers) and message passing
 * With -DHB_MODE the message-passing payload is plain memory and the harness adds no synchronisation of its own in the
 * measured region (TSan decides visibility). */
#include <plibsys.h>
#include <pthread.h>
#include <limits.h>
#include "vh.h"

static const char *scen = "-";
static void viol(const char *symptom, const char *fmt, ...) __attribute__((format(printf, 2, 3)));
static void viol(const char *symptom, const char *fmt, ...) {
	char key[200], buf[1000]; va_list ap;
	va_start(ap, fmt); vsnprintf(buf, sizeof buf, fmt, ap); va_end(ap);
	snprintf(key, sizeof key, "model=%s test=%s symptom=%s", VH_MODEL, scen, symptom);
	if (vh_nviol < vh_max_viol) vh_viol("C04", key, "%s", buf);
}

/* ------------------------------------------------ value oracle ------------------------------------------------ */
static long long st_value_cases, st_pairs_exhaustive;
static int skip_overflow;     /* sim model under UBSan: skip signed wrap-around operands (values are a C04 matter, UB is not) */

static int would_overflow_add(int32_t a, int32_t b) { int64_t s = (int64_t)a + b; return s > INT_MAX || s < INT_MIN; }

static void int_pair(uint32_t a, uint32_t b, uint32_t c) {
	volatile pint v; volatile puint u; pint r; puint ru; pboolean ok;
	st_value_cases++;
	scen = "int-set-get"; p_atomic_int_set(&v, (pint)a); if ((uint32_t)p_atomic_int_get(&v) != a || (uint32_t)v != a) viol("value", "set/get %08x -> %08x", a, (uint32_t)v);
	if (!(skip_overflow && a == (uint32_t)INT_MAX)) { scen = "int-inc"; v = (pint)a; p_atomic_int_inc(&v); if ((uint32_t)v != a + 1u) viol("value", "inc %08x -> %08x", a, (uint32_t)v); }
	if (!(skip_overflow && a == (uint32_t)INT_MIN)) { scen = "int-dec-and-test"; v = (pint)a; ok = p_atomic_int_dec_and_test(&v); if ((uint32_t)v != a - 1u) viol("value", "dec %08x -> %08x", a, (uint32_t)v); if ((ok != FALSE) != (a - 1u == 0)) viol("dec-and-test-result", "dec_and_test on %08x returned %d", a, ok); }
	scen = "int-cas"; v = (pint)a; ok = p_atomic_int_compare_and_exchange(&v, (pint)b, (pint)c);
	if ((ok != FALSE) != (a == b)) viol("cas-result", "cas(word=%08x, expected=%08x) returned %d", a, b, ok); else if ((uint32_t)v != (a == b ? c : a)) viol("value", "cas(word=%08x, expected=%08x, new=%08x) left %08x", a, b, c, (uint32_t)v);
	v = (pint)a; ok = p_atomic_int_compare_and_exchange(&v, (pint)a, (pint)c); if (!ok || (uint32_t)v != c) viol("cas-result", "cas with equal expected value failed (word %08x)", a);
	if (!(skip_overflow && would_overflow_add((int32_t)a, (int32_t)b))) { scen = "int-add"; v = (pint)a; r = p_atomic_int_add(&v, (pint)b); if ((uint32_t)r != a || (uint32_t)v != a + b) viol("value", "add(%08x,%08x) returned %08x left %08x", a, b, (uint32_t)r, (uint32_t)v); }
	scen = "int-and"; u = a; ru = p_atomic_int_and(&u, b); if (ru != a || u != (a & b)) viol("value", "and(%08x,%08x) returned %08x left %08x", a, b, ru, u);
	scen = "int-or"; u = a; ru = p_atomic_int_or(&u, b); if (ru != a || u != (a | b)) viol("value", "or(%08x,%08x) returned %08x left %08x", a, b, ru, u);
	scen = "int-xor"; u = a; ru = p_atomic_int_xor(&u, b); if (ru != a || u != (a ^ b)) viol("value", "xor(%08x,%08x) returned %08x left %08x", a, b, ru, u);
}
static void ptr_pair(uintptr_t a, uintptr_t b, uintptr_t c) {
	volatile uintptr_t w; pboolean ok; pssize rs; psize ru;
	st_value_cases++;
	scen = "ptr-set-get"; p_atomic_pointer_set(&w, (ppointer)a); if ((uintptr_t)p_atomic_pointer_get(&w) != a || w != a) viol("value", "pointer set/get %lx -> %lx", (unsigned long)a, (unsigned long)w);
	scen = "ptr-cas"; w = a; ok = p_atomic_pointer_compare_and_exchange(&w, (ppointer)b, (ppointer)c);
	if ((ok != FALSE) != (a == b)) viol("cas-result", "pointer cas(word=%lx, expected=%lx) returned %d", (unsigned long)a, (unsigned long)b, ok); else if (w != (a == b ? c : a)) viol("value", "pointer cas left %lx", (unsigned long)w);
	w = a; ok = p_atomic_pointer_compare_and_exchange(&w, (ppointer)a, (ppointer)c); if (!ok || w != c) viol("cas-result", "pointer cas with equal expected value failed");
	if (!(skip_overflow && __builtin_add_overflow_p((intptr_t)a, (intptr_t)b, (intptr_t)0))) { scen = "ptr-add"; w = a; rs = p_atomic_pointer_add(&w, (pssize)b); if ((uintptr_t)rs != a || w != a + b) viol("value", "pointer add(%lx,%lx) returned %lx left %lx", (unsigned long)a, (unsigned long)b, (unsigned long)rs, (unsigned long)w); }
	scen = "ptr-and"; w = a; ru = p_atomic_pointer_and(&w, (psize)b); if (ru != a || w != (a & b)) viol("value", "pointer and(%lx,%lx) returned %lx left %lx", (unsigned long)a, (unsigned long)b, (unsigned long)ru, (unsigned long)w);
	scen = "ptr-or"; w = a; ru = p_atomic_pointer_or(&w, (psize)b); if (ru != a || w != (a | b)) viol("value", "pointer or returned %lx left %lx", (unsigned long)ru, (unsigned long)w);
	scen = "ptr-xor"; w = a; ru = p_atomic_pointer_xor(&w, (psize)b); if (ru != a || w != (a ^ b)) viol("value", "pointer xor returned %lx left %lx", (unsigned long)ru, (unsigned long)w);
}

static void run_value(vh_rng *r, long long nrand) {
	static const uint32_t B32[] = { 0, 1, 2, 3, 0x7ffffffe, 0x7fffffff, 0x80000000u, 0x80000001u, 0xfffffffeu, 0xffffffffu, 0x55555555, 0xaaaaaaaau, 0x0000ffff, 0xffff0000u, 0x00010000, 0x7fff0000, 0x12345678 };
	static const uint64_t B64[] = { 0, 1, 2, 0x7ffffffeULL, 0x7fffffffULL, 0x80000000ULL, 0xffffffffULL, 0x100000000ULL, 0x100000001ULL, 0x7fffffffffffffffULL, 0x8000000000000000ULL, 0x8000000000000001ULL,
		0xfffffffffffffffeULL, 0xffffffffffffffffULL, 0x5555555555555555ULL, 0xaaaaaaaaaaaaaaaaULL, 0x00000000ffffffffULL, 0xffffffff00000000ULL, 0x123456789abcdef0ULL };
	int i, j, n32 = sizeof B32 / sizeof B32[0], n64 = sizeof B64 / sizeof B64[0]; long long k;
	for (i = 0; i < n32; i++) for (j = 0; j < n32; j++) { int_pair(B32[i], B32[j], B32[(i + j) % n32] ^ 0x5a5a5a5a); st_pairs_exhaustive++; }
	for (i = 0; i < n64; i++) for (j = 0; j < n64; j++) { ptr_pair((uintptr_t)B64[i], (uintptr_t)B64[j], (uintptr_t)(B64[(i + j) % n64] ^ 0x5a5a5a5a5a5a5a5aULL)); st_pairs_exhaustive++; }
	for (k = 0; k < nrand && vh_nviol < vh_max_viol; k++) {
		uint64_t a = vh_next(r), b = vh_next(r), c = vh_next(r);
		if (vh_chance(r, 20)) b = a; if (vh_chance(r, 10)) a = B64[vh_below(r, n64)]; if (vh_chance(r, 10)) b = B64[vh_below(r, n64)];
		int_pair((uint32_t)a, (uint32_t)b, (uint32_t)c); ptr_pair((uintptr_t)a, (uintptr_t)b, (uintptr_t)c);
	}
}

/* ------------------------------------------------ concurrent ------------------------------------------------ */
#define MAXT 64
typedef struct { int id, T; long long N; int test; } Arg;
static volatile pint c_int; static volatile puint c_uint; static volatile uintptr_t c_ptr; static volatile pint c_ref;
static pint *tk_log[MAXT]; static long long tk_n[MAXT];
static volatile long long true_count, cas_success[MAXT];
static pthread_barrier_t bar;
static volatile int torn_seen; static volatile long long bit_bad, unknown_value;
static long long st_conc_ops;

static void *conc_fn(void *a) {
	Arg *g = a; long long i; vh_rng r; vh_seed(&r, (uint64_t)g->id * 977 + (uint64_t)g->test);
	pthread_barrier_wait(&bar);
	switch (g->test) {
	case 0: for (i = 0; i < g->N; i++) tk_log[g->id][i] = p_atomic_int_add(&c_int, 1); tk_n[g->id] = g->N; break;                    /* tickets */
	case 1: for (i = 0; i < g->N; i++) tk_log[g->id][i] = p_atomic_int_add(&c_int, g->id + 1); tk_n[g->id] = g->N; break;            /* strides */
	case 2: for (i = 0; i < g->N; i++) { if (p_atomic_int_dec_and_test(&c_ref)) __sync_fetch_and_add(&true_count, 1); } break;      /* refcount to zero */
	case 3: { long long ex = 0; for (i = 0; i < g->N; i++) { if (vh_chance(&r, 30)) { p_atomic_int_inc(&c_ref); ex++; } p_atomic_int_inc(&c_ref); if (p_atomic_int_dec_and_test(&c_ref)) __sync_fetch_and_add(&true_count, 1); } cas_success[g->id] = ex; break; }
	case 4: { long long s = 0; for (i = 0; i < g->N; i++) { pint old = p_atomic_int_get(&c_int); if (p_atomic_int_compare_and_exchange(&c_int, old, old + 1)) s++; } cas_success[g->id] = s; break; }
	case 5: { puint bit = 1u << (g->id % 32); int have = 0;                                                                      /* bit ownership (<= 32 threads) */
		for (i = 0; i < g->N; i++) { puint old; int k = (int)vh_below(&r, 3);
			if (k == 0) { old = p_atomic_int_or(&c_uint, bit); if (((old & bit) != 0) != have) bit_bad++; have = 1; }
			else if (k == 1) { old = p_atomic_int_and(&c_uint, ~bit); if (((old & bit) != 0) != have) bit_bad++; have = 0; }
			else { old = p_atomic_int_xor(&c_uint, bit); if (((old & bit) != 0) != have) bit_bad++; have = !have; } }
		if (have) p_atomic_int_xor(&c_uint, bit); break; }
	case 6: { uintptr_t bit = (uintptr_t)1 << (g->id % 64); int have = 0;
		for (i = 0; i < g->N; i++) { psize old; int k = (int)vh_below(&r, 3);
			if (k == 0) { old = p_atomic_pointer_or(&c_ptr, bit); if (((old & bit) != 0) != have) bit_bad++; have = 1; }
			else if (k == 1) { old = p_atomic_pointer_and(&c_ptr, ~bit); if (((old & bit) != 0) != have) bit_bad++; have = 0; }
			else { old = p_atomic_pointer_xor(&c_ptr, bit); if (((old & bit) != 0) != have) bit_bad++; have = !have; } }
		if (have) p_atomic_pointer_xor(&c_ptr, bit); break; }
	case 7: for (i = 0; i < g->N; i++) {                                                                                          /* tagged pointer words: no torn / unknown value */
			if (g->id & 1) { uint32_t t = (uint32_t)(g->id << 20) | (uint32_t)(i & 0xfffff); p_atomic_pointer_set(&c_ptr, (ppointer)(((uintptr_t)t << 32) | (uintptr_t)(t ^ 0xa5a5a5a5u))); }
			else { uintptr_t w = (uintptr_t)p_atomic_pointer_get(&c_ptr); if (w && (uint32_t)(w >> 32) != ((uint32_t)w ^ 0xa5a5a5a5u)) torn_seen = 1; }
		} break;
	case 8: { long long s = 0; for (i = 0; i < g->N; i++) { uintptr_t old = (uintptr_t)p_atomic_pointer_get(&c_ptr); if (p_atomic_pointer_compare_and_exchange(&c_ptr, (ppointer)old, (ppointer)(old + 0x100000001ULL))) s++; } cas_success[g->id] = s; break; }
	case 9: for (i = 0; i < g->N; i++) tk_log[g->id][i] = (pint)p_atomic_pointer_add(&c_ptr, 1); tk_n[g->id] = g->N; break;
	}
	return NULL;
}

static int cmp_i32(const void *a, const void *b) { uint32_t x = *(const uint32_t *)a, y = *(const uint32_t *)b; return x < y ? -1 : x > y; }

static void run_conc_test(int test, int T, long long N) {
	pthread_t th[MAXT]; Arg a[MAXT]; int i; long long tot = (long long)T * N, k;
	static const char *names[] = { "tickets", "strides", "refcount-to-zero", "refcount-mixed", "cas-counter", "bit-ownership-int", "bit-ownership-ptr", "tagged-pointer", "cas-counter-ptr", "tickets-ptr" };
	scen = names[test];
	if ((test == 5 && T > 32) || (test == 6 && T > 64)) T = test == 5 ? 32 : 64;
	c_int = 0; c_uint = 0; c_ptr = 0; true_count = 0; bit_bad = 0; torn_seen = 0;
	if (test == 2) c_ref = (pint)((long long)T * N);
	if (test == 3) c_ref = 1;
	if (test == 1) c_int = (pint)0x7fffff00;      /* wrap-around during the run */
	if (test == 0) c_int = (pint)0xffffff00u;
	for (i = 0; i < T; i++) { a[i].id = i; a[i].T = T; a[i].N = N; a[i].test = test; cas_success[i] = 0; tk_n[i] = 0; if (test <= 1 || test == 9) tk_log[i] = malloc(sizeof(pint) * (size_t)N); }
	pthread_barrier_init(&bar, NULL, (unsigned)T);
	for (i = 0; i < T; i++) pthread_create(&th[i], NULL, conc_fn, &a[i]);
	for (i = 0; i < T; i++) pthread_join(th[i], NULL);
	pthread_barrier_destroy(&bar);
	st_conc_ops += (long long)T * N;
	tot = (long long)T * N;
	if (test == 0 || test == 9) {
		uint32_t *all = malloc(sizeof(uint32_t) * (size_t)tot), base = test == 0 ? 0xffffff00u : 0; long long n = 0;
		for (i = 0; i < T; i++) { memcpy(all + n, tk_log[i], sizeof(pint) * (size_t)tk_n[i]); n += tk_n[i]; }
		for (k = 0; k < tot; k++) all[k] -= base;
		qsort(all, (size_t)tot, sizeof(uint32_t), cmp_i32);
		for (k = 0; k < tot; k++) if (all[k] != (uint32_t)k) { viol("lost-or-duplicated-update", "returned old values are not a permutation of 0..%lld (position %lld holds %u)", tot - 1, k, all[k]); break; }
		if (test == 0 && (uint32_t)c_int != base + (uint32_t)tot) viol("final-value", "final %08x expected %08x", (uint32_t)c_int, base + (uint32_t)tot);
		if (test == 9 && c_ptr != (uintptr_t)tot) viol("final-value", "final %lx expected %llx", (unsigned long)c_ptr, tot);
		free(all);
	} else if (test == 1) {
		/* chain: sort (old) ascending relative to base; each old[i+1] == old[i] + stride of the op that returned old[i] */
		typedef struct { uint32_t old; uint32_t stride; } E; E *all = malloc(sizeof(E) * (size_t)tot); long long n = 0; uint32_t base = 0x7fffff00u, expect = 0; int j;
		for (i = 0; i < T; i++) for (j = 0; j < tk_n[i]; j++) { all[n].old = (uint32_t)tk_log[i][j] - base; all[n].stride = (uint32_t)i + 1; n++; }
		qsort(all, (size_t)tot, sizeof(E), cmp_i32);
		for (k = 0; k < tot; k++) { if (all[k].old != expect) { viol("lost-or-duplicated-update", "old values do not chain: position %lld holds %u expected %u", k, all[k].old, expect); break; } expect += all[k].stride; }
		if (k == tot && (uint32_t)c_int != base + expect) viol("final-value", "final %08x expected %08x", (uint32_t)c_int, base + expect);
		free(all);
	} else if (test == 2) { if (true_count != 1) viol("dec-and-test-result", "%lld of %lld racing decrements returned TRUE (exactly one reaches zero)", (long long)true_count, tot); if (c_ref != 0) viol("final-value", "refcount ends at %d", c_ref); }
	else if (test == 3) { long long ex = 1; for (i = 0; i < T; i++) ex += cas_success[i]; if ((long long)c_ref != ex) viol("final-value", "refcount ends at %d, expected %lld", c_ref, ex); if (true_count != 0) viol("dec-and-test-result", "dec_and_test returned TRUE %lld times although the count never reached zero", (long long)true_count); }
	else if (test == 4) { long long s = 0; for (i = 0; i < T; i++) s += cas_success[i]; if ((long long)(uint32_t)c_int != s) viol("cas-result", "%lld successful CAS increments but counter is %u", s, (uint32_t)c_int); }
	else if (test == 8) { long long s = 0; for (i = 0; i < T; i++) s += cas_success[i]; if (c_ptr != (uintptr_t)s * 0x100000001ULL) viol("cas-result", "%lld successful pointer CAS increments but word is %lx", s, (unsigned long)c_ptr); }
	else if (test == 5) { if (bit_bad) viol("lost-or-duplicated-update", "%lld and/or/xor results showed a thread's own bit in the wrong state", (long long)bit_bad); if (c_uint != 0) viol("final-value", "bits left %08x", c_uint); }
	else if (test == 6) { if (bit_bad) viol("lost-or-duplicated-update", "%lld pointer and/or/xor results showed a thread's own bit in the wrong state", (long long)bit_bad); if (c_ptr != 0) viol("final-value", "bits left %lx", (unsigned long)c_ptr); }
	else if (test == 7) { if (torn_seen) viol("torn-word", "pointer get returned a value no thread ever set"); }
	for (i = 0; i < T; i++) if (test <= 1 || test == 9) free(tk_log[i]);
}

/* many short races to zero: each round the counter starts at T*per and T threads released together decrement it to zero; exactly one TRUE per round */
static volatile pint rr_ref; static volatile long long rr_round_go, rr_done; static long long rr_rounds; static int rr_T, rr_per; static volatile long long rr_true[MAXT];
static long long st_rr_rounds, st_rr_bad_rounds;
static void *rr_fn(void *a) {
	int id = (int)(intptr_t)a; long long rd; int j;
	for (rd = 1; rd <= rr_rounds; rd++) {
		while (__atomic_load_n(&rr_round_go, __ATOMIC_ACQUIRE) < rd) ;
		for (j = 0; j < rr_per; j++) if (p_atomic_int_dec_and_test(&rr_ref)) rr_true[id]++;
		__atomic_add_fetch(&rr_done, 1, __ATOMIC_ACQ_REL);
	}
	return NULL;
}
static void run_refcount_rounds(int T, int per, long long rounds) {
	pthread_t th[MAXT]; int i; long long rd, prev = 0;
	scen = "refcount-rounds"; rr_T = T; rr_per = per; rr_rounds = rounds; rr_round_go = 0; rr_done = 0;
	for (i = 0; i < T; i++) rr_true[i] = 0;
	for (i = 0; i < T; i++) pthread_create(&th[i], NULL, rr_fn, (void *)(intptr_t)i);
	for (rd = 1; rd <= rounds; rd++) {
		long long tot = 0;
		rr_ref = (pint)(T * per);
		__atomic_store_n(&rr_round_go, rd, __ATOMIC_RELEASE);
		while (__atomic_load_n(&rr_done, __ATOMIC_ACQUIRE) < rd * T) ;
		for (i = 0; i < T; i++) tot += rr_true[i];
		if (tot - prev != 1) { st_rr_bad_rounds++; if (st_rr_bad_rounds == 1) viol("dec-and-test-result", "round %lld: %lld of %d racing decrements to zero returned TRUE (exactly one reaches zero)", rd, tot - prev, T * per); }
		if (rr_ref != 0 && st_rr_bad_rounds < 2) viol("final-value", "counter is %d after %d decrements from %d", rr_ref, T * per, T * per);
		prev = tot; st_rr_rounds++;
		if (vh_nviol >= vh_max_viol) { __atomic_store_n(&rr_round_go, rounds + 1, __ATOMIC_RELEASE); break; }
	}
	for (i = 0; i < T; i++) pthread_join(th[i], NULL);
	st_conc_ops += (long long)T * per * st_rr_rounds;
}

/* ------------------------------------------------ litmus ------------------------------------------------ */
static long long st_sb_rounds, st_sb_00, st_sb_01, st_sb_10, st_sb_11, st_mp_rounds;
#define LN 4096
static volatile pint X[LN * 16], Y[LN * 16]; static pint R1[LN], R2[LN];
static volatile long long pa, pb; static long long sb_iters;
static void *sb_a(void *u) { long long it; int i; (void)u; for (it = 0; it < sb_iters; it++) for (i = 0; i < LN; i++) { long long g = it * LN + i; __atomic_store_n(&pa, g + 1, __ATOMIC_RELAXED); while (__atomic_load_n(&pb, __ATOMIC_RELAXED) <= g); p_atomic_int_set(&X[i * 16], (pint)(it + 1)); R1[i] = p_atomic_int_get(&Y[i * 16]); } return NULL; }
static void *sb_b(void *u) { long long it; int i; (void)u; for (it = 0; it < sb_iters; it++) for (i = 0; i < LN; i++) { long long g = it * LN + i; __atomic_store_n(&pb, g + 1, __ATOMIC_RELAXED); while (__atomic_load_n(&pa, __ATOMIC_RELAXED) <= g); p_atomic_int_set(&Y[i * 16], (pint)(it + 1)); R2[i] = p_atomic_int_get(&X[i * 16]); } return NULL; }

static void run_sb(long long rounds) {
	/* one batch = LN independent variable pairs; results are inspected between batches by the main thread */
	long long batches = rounds / LN + 1, b; int i;
	scen = "store-buffering";
	for (b = 0; b < batches && vh_nviol < vh_max_viol; b++) {
		pthread_t ta, tb;
		for (i = 0; i < LN; i++) { X[i * 16] = 0; Y[i * 16] = 0; R1[i] = R2[i] = -1; }
		pa = pb = 0; sb_iters = 1;
		pthread_create(&ta, NULL, sb_a, NULL); pthread_create(&tb, NULL, sb_b, NULL);
		pthread_join(ta, NULL); pthread_join(tb, NULL);
		for (i = 0; i < LN; i++) {
			st_sb_rounds++;
			if (R1[i] == 0 && R2[i] == 0) { st_sb_00++; viol("store-buffering-00", "x=1;r1=y || y=1;r2=x through p_atomic_int_set/get observed r1=r2=0 (set/get are not full barriers)"); }
			else if (R1[i] == 0) st_sb_01++; else if (R2[i] == 0) st_sb_10++; else st_sb_11++;
		}
	}
}

/* the same store-buffering litmus through p_atomic_pointer_set/get */
static volatile uintptr_t PX[LN * 8], PY[LN * 8]; static uintptr_t PR1[LN], PR2[LN]; static long long st_psb_rounds, st_psb_00;
static void *psb_a(void *u) { int i; (void)u; for (i = 0; i < LN; i++) { __atomic_store_n(&pa, i + 1, __ATOMIC_RELAXED); while (__atomic_load_n(&pb, __ATOMIC_RELAXED) <= i); p_atomic_pointer_set(&PX[i * 8], (ppointer)(uintptr_t)0x100000001ULL); PR1[i] = (uintptr_t)p_atomic_pointer_get(&PY[i * 8]); } return NULL; }
static void *psb_b(void *u) { int i; (void)u; for (i = 0; i < LN; i++) { __atomic_store_n(&pb, i + 1, __ATOMIC_RELAXED); while (__atomic_load_n(&pa, __ATOMIC_RELAXED) <= i); p_atomic_pointer_set(&PY[i * 8], (ppointer)(uintptr_t)0x100000001ULL); PR2[i] = (uintptr_t)p_atomic_pointer_get(&PX[i * 8]); } return NULL; }
static void run_psb(long long rounds) {
	long long batches = rounds / LN + 1, b; int i;
	scen = "store-buffering-pointer";
	for (b = 0; b < batches && vh_nviol < vh_max_viol; b++) {
		pthread_t ta, tb;
		for (i = 0; i < LN; i++) { PX[i * 8] = 0; PY[i * 8] = 0; PR1[i] = PR2[i] = 7; }
		pa = pb = 0;
		pthread_create(&ta, NULL, psb_a, NULL); pthread_create(&tb, NULL, psb_b, NULL); pthread_join(ta, NULL); pthread_join(tb, NULL);
		for (i = 0; i < LN; i++) { st_psb_rounds++; if (PR1[i] == 0 && PR2[i] == 0) { st_psb_00++; viol("store-buffering-00", "x=1;r1=y || y=1;r2=x through p_atomic_pointer_set/get observed r1=r2=0 (pointer set/get are not full barriers)"); } else if ((PR1[i] && PR1[i] != 0x100000001ULL) || (PR2[i] && PR2[i] != 0x100000001ULL)) viol("torn-word", "pointer get returned %lx / %lx", (unsigned long)PR1[i], (unsigned long)PR2[i]); }
	}
}

static volatile pint mp_flag[LN * 16];
#ifdef HB_MODE
static pint mp_data[LN * 16];              /* plain payload: TSan sees a race if set/get do not synchronise */
#else
static volatile pint mp_data[LN * 16];
#endif
static volatile long long mp_bad;
static void *mp_w(void *u) { int i; (void)u; for (i = 0; i < LN; i++) { mp_data[i * 16] = i + 7; p_atomic_int_set(&mp_flag[i * 16], 1); } return NULL; }
static void *mp_r(void *u) { int i; (void)u; for (i = 0; i < LN; i++) { while (!p_atomic_int_get(&mp_flag[i * 16])); if (mp_data[i * 16] != i + 7) mp_bad++; } return NULL; }
static void run_mp(long long rounds) {
	long long batches = rounds / LN + 1, b; int i;
	scen = "message-passing";
	for (b = 0; b < batches && vh_nviol < vh_max_viol; b++) {
		pthread_t tw, tr;
		for (i = 0; i < LN; i++) { mp_flag[i * 16] = 0; mp_data[i * 16] = 0; }
		pthread_create(&tr, NULL, mp_r, NULL); pthread_create(&tw, NULL, mp_w, NULL);
		pthread_join(tw, NULL); pthread_join(tr, NULL);
		st_mp_rounds += LN;
		if (mp_bad) { viol("message-passing-stale", "reader saw the flag but a stale payload %lld times", (long long)mp_bad); mp_bad = 0; }
	}
}

int main(int argc, char **argv) {
	vh_rng r; double t0 = vh_now(); const char *mode = vh_arg(argc, argv, "--mode", "value"); long long n = vh_argi(argc, argv, "--n", 100000); int T = (int)vh_argi(argc, argv, "--T", 8), t;
	vh_seed(&r, (uint64_t)vh_argi(argc, argv, "--seed", 1) * 0x2545F4914F6CDD1DULL);
	skip_overflow = vh_flag(argc, argv, "--skip-overflow");
	p_libsys_init();
	if (!strcmp(mode, "value")) run_value(&r, n);
	else if (!strcmp(mode, "conc")) { for (t = 0; t < 10 && vh_nviol < vh_max_viol; t++) run_conc_test(t, T, n); if (T <= 16) { run_refcount_rounds(T < 2 ? 2 : (T > 4 ? 4 : T), 1, n / 4 + 100); run_refcount_rounds(2, 2, n / 4 + 100); } }
	else { run_sb(n); run_psb(n / 2); run_mp(n / 4); }
	p_libsys_shutdown();
	printf("{\"ev\":\"stats\",\"mode\":\"%s\",\"model\":\"%s\",\"value_cases\":%lld,\"exhaustive_pairs\":%lld,\"conc_ops\":%lld,\"refcount_rounds\":%lld,\"threads\":%d,\"sb_rounds\":%lld,\"sb_pointer_rounds\":%lld,\"sb_outcomes\":[%lld,%lld,%lld,%lld],\"mp_rounds\":%lld,\"viol\":%d,\"wall\":%.2f}\n",
	       mode, VH_MODEL, st_value_cases, st_pairs_exhaustive, st_conc_ops, st_rr_rounds, T, st_sb_rounds, st_psb_rounds, st_sb_00, st_sb_01, st_sb_10, st_sb_11, st_mp_rounds, vh_nviol, vh_now() - t0);
	return 0;
}

/* Representative create-use-free call sequences per module ("careful callers": accept NULL/FALSE anywhere, free what
 * they got, self-check pre-existing objects).  Shared by c18_oom.c (allocation-failure enumeration) and c20_res.c
 * (resource neutrality).  Requires vh.h, vh_alloc.h (for init_shutdown) and plibsys.h to be included first. */
#ifndef VH_SCEN_H
#define VH_SCEN_H
static char uniq[64];        /* per-child unique prefix */
static const char *scname;
static int damage;           /* set by scenarios when a pre-existing object was damaged */
static char damage_what[256];
#define DAMAGE(...) do { if (!damage) snprintf(damage_what, sizeof damage_what, __VA_ARGS__); damage = 1; } while (0)

/* IPC names used by the current scenario run (so a monitor can check /dev/shm afterwards) */
static char ipc_names[64][96]; static int ipc_kinds[64]; static int n_ipc;   /* kind: 0 semaphore, 1 shm, 2 shm buffer */
static const char *reg_name(int kind, const char *fmt, ...) {
	va_list ap; char *dst = ipc_names[n_ipc < 63 ? n_ipc : 63];
	va_start(ap, fmt); vsnprintf(dst, 96, fmt, ap); va_end(ap);
	ipc_kinds[n_ipc < 63 ? n_ipc : 63] = kind; if (n_ipc < 63) n_ipc++;
	return dst;
}

/* ------------------------------------------------------------------ scenarios */
static void sc_list(void) {
	PList *l = NULL; ppointer m[16]; int n = 0, i; PList *c;
	for (i = 0; i < 6; i++) {
		PList *nl; ppointer d = (ppointer)(uintptr_t)(100 + i); size_t before = p_list_length(l);
		if (i & 1) { nl = p_list_prepend(l, d); if (p_list_length(nl) == before + 1) { memmove(m + 1, m, sizeof m[0] * n); m[0] = d; n++; } }
		else { nl = p_list_append(l, d); if (p_list_length(nl) == before + 1) m[n++] = d; }
		l = nl;
		for (c = l, before = 0; c; c = c->next, before++) if ((int)before >= n || c->data != m[before]) { DAMAGE("list content changed by a failed insertion"); break; }
		if ((int)before != n) DAMAGE("list length changed by a failed insertion");
	}
	l = p_list_reverse(l); l = p_list_remove(l, (ppointer)(uintptr_t)102); (void)p_list_last(l);
	p_list_free(l);
}

static void sc_hashtable(void) {
	PHashTable *t = p_hash_table_new(); ppointer keys[24]; int present[24], i, j; PList *l;
	if (!t) return;
	for (i = 0; i < 24; i++) { keys[i] = (ppointer)(uintptr_t)(64 + 101 * (i % 6) + (i / 6) * 7); present[i] = 0; }
	for (i = 0; i < 24; i++) {
		p_hash_table_insert(t, keys[i], (ppointer)(uintptr_t)(i + 1));
		present[i] = p_hash_table_lookup(t, keys[i]) == (ppointer)(uintptr_t)(i + 1);
		if (!present[i] && p_hash_table_lookup(t, keys[i]) != (ppointer)(uintptr_t)-1) DAMAGE("failed insert left a wrong value");
		for (j = 0; j < i; j++) if (present[j] && p_hash_table_lookup(t, keys[j]) != (ppointer)(uintptr_t)(j + 1)) DAMAGE("hash table entry %d changed by a later (failed) insert", j);
	}
	l = p_hash_table_keys(t); p_list_free(l);
	l = p_hash_table_values(t); p_list_free(l);
	l = p_hash_table_lookup_by_value(t, (ppointer)(uintptr_t)3, NULL); p_list_free(l);
	p_hash_table_remove(t, keys[3]);
	p_hash_table_free(t);
}

typedef struct { int k; int dead; } TObj;
static pint tcmp(pconstpointer a, pconstpointer b, ppointer d) { const TObj *x = a, *y = b; (void)d; if (x->dead || y->dead) DAMAGE("tree compares a destroyed key"); return x->k < y->k ? -1 : x->k > y->k; }
static void tdestroy(ppointer p) { TObj *o = p; if (o->dead) DAMAGE("tree destroyed an object twice"); o->dead = 1; }
static void sc_tree(int type) {
	PTree *t = p_tree_new_full((PTreeType)type, tcmp, NULL, tdestroy, tdestroy); TObj ko[16], vo[16]; int in[16], i, j;
	static const int order[16] = { 8, 3, 12, 1, 5, 10, 14, 0, 2, 4, 6, 9, 11, 13, 15, 7 };
	if (!t) return;
	memset(ko, 0, sizeof ko); memset(vo, 0, sizeof vo);
	for (i = 0; i < 16; i++) {
		int before = p_tree_get_nnodes(t);
		ko[i].k = vo[i].k = order[i];
		p_tree_insert(t, &ko[i], &vo[i]);
		in[i] = p_tree_get_nnodes(t) == before + 1;
		if (!in[i] && p_tree_lookup(t, &ko[i]) != NULL) DAMAGE("failed tree insert is visible");
		if (in[i] && p_tree_lookup(t, &ko[i]) != &vo[i]) DAMAGE("successful tree insert not found");
		for (j = 0; j < i; j++) if (in[j] && p_tree_lookup(t, &ko[j]) != &vo[j]) DAMAGE("tree entry lost after a later (failed) insert");
		if (!in[i] && (ko[i].dead || vo[i].dead)) DAMAGE("failed insert destroyed the caller's objects");
	}
	for (i = 0; i < 16; i += 3) if (in[i]) { if (!p_tree_remove(t, &ko[i])) DAMAGE("remove of a present key failed"); else if (!ko[i].dead || !vo[i].dead) DAMAGE("removed pair not destroyed"); in[i] = 0; }
	p_tree_free(t);
	for (i = 0; i < 16; i++) if (in[i] && (!ko[i].dead || !vo[i].dead)) DAMAGE("tree free did not destroy a stored pair");
}
static void sc_tree_bst(void) { sc_tree(0); }
static void sc_tree_rb(void) { sc_tree(1); }
static void sc_tree_avl(void) { sc_tree(2); }

static void sc_string(void) {
	pchar *a = p_strdup("  hello world  "), *b = p_strchomp("  hello world  "), *c = p_strchomp(""), *d = p_strdup("a,b;c"), *sv = NULL, *tk;
	if (d) for (tk = p_strtok(d, ",;", &sv); tk; tk = p_strtok(NULL, ",;", &sv)) (void)tk;
	(void)p_strtod("  -12.5e3 "); (void)p_strtod("abc");
	p_free(a); p_free(b); p_free(c); p_free(d);
}

static void sc_error(void) {
	PError *e = p_error_new(), *l = p_error_new_literal(3, 4, "literal message"), *c = p_error_copy(l), *p = NULL;
	p_error_set_error(e, 1, 2, "first"); p_error_set_message(e, "second message"); p_error_set_message(e, NULL);
	p_error_set_error_p(&p, 5, 6, "created through pointer"); p_error_set_error_p(&p, 7, 8, "ignored: already set");
	(void)p_error_get_message(e); (void)p_error_get_message(c); (void)p_error_get_domain(l);
	if (l && (p_error_get_code(l) != 3 || p_error_get_native_code(l) != 4 || (p_error_get_message(l) && strcmp(p_error_get_message(l), "literal message")))) DAMAGE("source error changed by p_error_copy");
	if (c && (p_error_get_code(c) != 3 || p_error_get_native_code(c) != 4)) DAMAGE("copied error has wrong codes");
	/* every setter once more on objects that already hold a message (the old text is released first): afterwards the object
	 * must answer with no text, the new text or the old text - and the answer must be readable and copyable */
	{
		static const char *const fresh[3] = { "replaces the held literal text", "replaces the copied text", "replaces the pointer-created text" };
		static const char *const old[3] = { "literal message", "literal message", "created through pointer" };
		PError *obj[3]; int i;
		obj[0] = l; obj[1] = c; obj[2] = p;
		for (i = 0; i < 3; i++) {
			const pchar *m; PError *cp = NULL; const pchar *cm;
			if (!obj[i]) continue;
			if (i == 1) p_error_set_message(obj[i], fresh[i]); else p_error_set_error(obj[i], 20 + i, 30 + i, fresh[i]);
			m = p_error_get_message(obj[i]);
			if (m && strcmp(m, fresh[i]) && strcmp(m, old[i])) DAMAGE("error object %d answers with a text that is neither the old nor the new one after a setter", i);
			if (i != 1 && (p_error_get_code(obj[i]) != 20 + i || p_error_get_native_code(obj[i]) != 30 + i)) DAMAGE("p_error_set_error did not store the codes on object %d", i);
			VA_QUIET(cp = p_error_copy(obj[i]));
			cm = cp ? p_error_get_message(cp) : NULL;
			if (cp && ((m == NULL) != (cm == NULL) || (m && strcmp(m, cm)))) DAMAGE("copy of error object %d taken after a (failed) setter differs from it", i);
			p_error_free(cp);
			VA_QUIET(p_error_set_error(obj[i], 40 + i, 50 + i, "quiet"));
			m = p_error_get_message(obj[i]);
			if (!m || strcmp(m, "quiet")) DAMAGE("error object %d does not take a new text without faults after a (failed) setter", i);
		}
	}
	p_error_clear(l); p_error_set_code(l, 9);
	p_error_free(e); p_error_free(l); p_error_free(c); p_error_free(p);
}

static char inipath[128];
/* text rendering of everything an INI object answers (sections, keys, string values), taken with no failpoint active */
static void ini_render(PIniFile *ini, char *out, size_t cap) {
	PList *secs = p_ini_file_sections(ini), *s; size_t o = 0; out[0] = 0;
	for (s = secs; s; s = s->next) {
		PList *keys = p_ini_file_keys(ini, s->data), *k;
		o += (size_t)snprintf(out + o, o < cap ? cap - o : 0, "[%s]", (char *)s->data);
		for (k = keys; k; k = k->next) { pchar *v = p_ini_file_parameter_string(ini, s->data, k->data, NULL); o += (size_t)snprintf(out + o, o < cap ? cap - o : 0, "%s=%s|", (char *)k->data, v ? v : "(null)"); p_free(v); }
		p_list_foreach(keys, (PFunc)p_free, NULL); p_list_free(keys);
	}
	p_list_foreach(secs, (PFunc)p_free, NULL); p_list_free(secs);
}
static void sc_ini(void) {
	PIniFile *ini = p_ini_file_new(inipath); PList *secs, *s; static char before[2048], after[2048];
	if (!ini) return;
	if (p_ini_file_parse(ini, NULL)) {
		VA_QUIET(ini_render(ini, before, sizeof before));
		secs = p_ini_file_sections(ini);
		for (s = secs; s; s = s->next) {
			PList *keys = p_ini_file_keys(ini, s->data), *k;
			for (k = keys; k; k = k->next) {
				pchar *v = p_ini_file_parameter_string(ini, s->data, k->data, "dflt"); PList *lst = p_ini_file_parameter_list(ini, s->data, k->data);
				(void)p_ini_file_parameter_int(ini, s->data, k->data, 1); (void)p_ini_file_parameter_double(ini, s->data, k->data, 1.0); (void)p_ini_file_parameter_boolean(ini, s->data, k->data, FALSE);
				(void)p_ini_file_is_key_exists(ini, s->data, k->data);
				p_list_foreach(lst, (PFunc)p_free, NULL); p_list_free(lst); p_free(v);
			}
			p_list_foreach(keys, (PFunc)p_free, NULL); p_list_free(keys);
		}
		p_list_foreach(secs, (PFunc)p_free, NULL); p_list_free(secs);
		{ pchar *v = p_ini_file_parameter_string(ini, "nosuch", "k", "dflt"); p_free(v); }
		(void)p_ini_file_parse(ini, NULL);      /* documented no-op on a parsed object */
		VA_QUIET(ini_render(ini, after, sizeof after));
		if (strcmp(before, after)) DAMAGE("INI object answers differently after (failed) getter calls");
	}
	{ PError *err = NULL; PIniFile *bad = p_ini_file_new("/nonexistent/vf.ini"); if (bad) { (void)p_ini_file_parse(bad, &err); p_error_free(err); p_ini_file_free(bad); } }
	p_ini_file_free(ini);
}

static char dirpath[128];
static void sc_dir(void) {
	PError *err = NULL; PDir *d; int round;
	d = p_dir_new(dirpath, &err); p_error_free(err); err = NULL;
	if (d) {
		pchar *p = p_dir_get_path(d); p_free(p);
		for (round = 0; round < 2; round++) {
			PDirEntry *e; int n = 0;
			while ((e = p_dir_get_next_entry(d, &err)) != NULL) { if (e->name == NULL) DAMAGE("directory entry without a name"); p_dir_entry_free(e); if (++n > 100) break; }
			p_error_free(err); err = NULL;
			(void)p_dir_rewind(d, &err); p_error_free(err); err = NULL;
		}
		{ PDirEntry *e; int n = 0, files = 0, dirs = 0;
		  va_quiet++; if (p_dir_rewind(d, NULL)) { while ((e = p_dir_get_next_entry(d, NULL)) != NULL && n < 100) { n++; if (e->type == P_DIR_ENTRY_TYPE_FILE) files++; else if (e->type == P_DIR_ENTRY_TYPE_DIR) dirs++; p_dir_entry_free(e); }
		    { DIR *rd = opendir(dirpath); int raw = 0; if (rd) { while (readdir(rd)) raw++; closedir(rd); }
		      if (n != raw || files < 3 || dirs < 1) DAMAGE("directory object lists %d entries (%d files, %d dirs) after (failed) iterations, readdir sees %d", n, files, dirs, raw); } } va_quiet--; }
		p_dir_free(d);
	}
	d = p_dir_new("/nonexistent/vf-dir", &err); p_error_free(err); err = NULL; p_dir_free(d);
	{ char sub[160]; snprintf(sub, sizeof sub, "%s/sub", dirpath); (void)p_dir_create(sub, 0755, &err); p_error_free(err); err = NULL; (void)p_dir_is_exists(sub); (void)p_dir_remove(sub, &err); p_error_free(err); err = NULL; (void)p_dir_remove(sub, &err); p_error_free(err); }
}

/* reference digests of "abc" and "abcdefgh" per algorithm, computed right after library start, before any failpoint exists */
static char hash_ref_str[11][2][140]; static int hash_ref_ok;
static void hash_refs_prepare(void) {
	int a, m; static const char *msg[2] = { "abc", "abcdefgh" };
	for (a = 0; a <= 10; a++) for (m = 0; m < 2; m++) {
		PCryptoHash *h = p_crypto_hash_new((PCryptoHashType)a); pchar *s;
		if (!h) return;
		p_crypto_hash_update(h, (const puchar *)msg[m], strlen(msg[m])); s = p_crypto_hash_get_string(h);
		if (!s) { p_crypto_hash_free(h); return; }
		snprintf(hash_ref_str[a][m], sizeof hash_ref_str[a][m], "%s", s); p_free(s); p_crypto_hash_free(h);
	}
	hash_ref_ok = 1;
}
static void hash_hex(const puchar *d, psize n, char *out) { psize i; for (i = 0; i < n; i++) sprintf(out + 2 * i, "%02x", d[i]); out[2 * n] = 0; }
static void sc_hash(void) {
	int a;
	for (a = 0; a <= 10; a++) {
		PCryptoHash *h = p_crypto_hash_new((PCryptoHashType)a); pchar *s, *s2 = NULL; puchar dig[64]; psize len = sizeof dig; char hex[140];
		if (!h) continue;
		p_crypto_hash_update(h, (const puchar *)"abc", 3); s = p_crypto_hash_get_string(h);
		if (hash_ref_ok && s && strcmp(s, hash_ref_str[a][0])) DAMAGE("hash type %d: wrong digest string", a);
		/* whether or not that call failed, the hash object existed before it: asking again (no failure now) must give the digest of "abc" */
		VA_QUIET(s2 = p_crypto_hash_get_string(h));
		if (hash_ref_ok && (!s2 || strcmp(s2, hash_ref_str[a][0]))) DAMAGE("hash type %d: digest asked again after a %s get_string is %s", a, s ? "successful" : "failed", s2 ? "different" : "NULL");
		p_free(s); p_free(s2);
		len = sizeof dig; p_crypto_hash_get_digest(h, dig, &len);
		if (hash_ref_ok) { if (len != (psize)p_crypto_hash_get_length(h) || len > sizeof dig) DAMAGE("hash type %d: digest length %zu", a, (size_t)len); else { hash_hex(dig, len, hex); if (strcmp(hex, hash_ref_str[a][0])) DAMAGE("hash type %d: raw digest differs after get_string", a); } }
		p_crypto_hash_reset(h); p_crypto_hash_update(h, (const puchar *)"abcdefgh", 8); len = sizeof dig; p_crypto_hash_get_digest(h, dig, &len);
		if (hash_ref_ok && len <= sizeof dig) { hash_hex(dig, len, hex); if (strcmp(hex, hash_ref_str[a][1])) DAMAGE("hash type %d: digest after reset differs", a); }
		p_crypto_hash_free(h);
	}
}

static void sc_semaphore(void) {
	const char *name; PError *err = NULL; PSemaphore *s, *s2;
	name = reg_name(0, "%s-sem", uniq);
	s = p_semaphore_new(name, 2, P_SEM_ACCESS_CREATE, &err); p_error_free(err); err = NULL;
	if (!s) return;
	p_semaphore_take_ownership(s);
	if (!p_semaphore_acquire(s, &err)) DAMAGE("acquire on a fresh semaphore of value 2 failed"); p_error_free(err); err = NULL;
	s2 = p_semaphore_new(name, 5, P_SEM_ACCESS_OPEN, &err); p_error_free(err); err = NULL;
	{ char pth0[64]; VA_QUIET(vh_sem_path(name, pth0)); if (!vh_exists(pth0)) DAMAGE("a %s second p_semaphore_new(OPEN) removed the name the first handle still uses", s2 ? "successful" : "failed"); }
	if (s2) { (void)p_semaphore_release(s2, NULL); p_semaphore_free(s2); }
	(void)p_semaphore_release(s, NULL);
	{ char pth[64]; long v; VA_QUIET(vh_sem_path(name, pth)); v = vh_sem_file_value(pth); if (v >= 0 && v != (s2 ? 3 : 2)) DAMAGE("semaphore counter is %ld after acquire, %s release", v, s2 ? "two" : "one"); }
	p_semaphore_free(s);
}

static void sc_shm(void) {
	const char *name; PError *err = NULL; PShm *a, *b;
	name = reg_name(1, "%s-shm", uniq);
	a = p_shm_new(name, 4096, P_SHM_ACCESS_READWRITE, &err); p_error_free(err); err = NULL;
	if (!a) return;
	p_shm_take_ownership(a);
	if (p_shm_lock(a, &err)) { memset(p_shm_get_address(a), 0x5a, p_shm_get_size(a)); (void)p_shm_unlock(a, NULL); } p_error_free(err); err = NULL;
	b = p_shm_new(name, 4096, P_SHM_ACCESS_READONLY, &err); p_error_free(err); err = NULL;
	{ char pth[64], sp[64]; int gone; VA_QUIET((vh_shm_path(name, pth), vh_shm_sem_path(name, sp))); gone = !vh_exists(pth) || !vh_exists(sp);
	  if (gone) DAMAGE("a %s second p_shm_new removed the name of the segment the first handle still uses", b ? "successful" : "failed"); }
	if (b) { if (((unsigned char *)p_shm_get_address(b))[100] != 0x5a) DAMAGE("second handle does not see the first handle's bytes"); p_shm_free(b); }
	if (((unsigned char *)p_shm_get_address(a))[4095] != 0x5a) DAMAGE("segment content changed");
	{ pboolean ok = FALSE; VA_QUIET(ok = p_shm_lock(a, NULL) && p_shm_unlock(a, NULL)); if (!ok) DAMAGE("first handle cannot lock/unlock after a %s second open", b ? "successful" : "failed"); }
	if (p_shm_get_size(a) != 4096) DAMAGE("first handle reports size %zu after a second open", (size_t)p_shm_get_size(a));
	p_shm_free(a);
}

static void sc_shmbuffer(void) {
	const char *name; char out[16]; PError *err = NULL; PShmBuffer *a, *b;
	name = reg_name(2, "%s-buf", uniq);
	a = p_shm_buffer_new(name, 100, &err); p_error_free(err); err = NULL;
	if (!a) return;
	p_shm_buffer_take_ownership(a); p_shm_buffer_clear(a);
	(void)p_shm_buffer_write(a, (ppointer)"0123456789", 10, &err); p_error_free(err); err = NULL;
	b = p_shm_buffer_new(name, 100, &err); p_error_free(err); err = NULL;
	{ char pth[64], sp[64]; int gone; VA_QUIET((vh_shm_path(name, pth), vh_shm_sem_path(name, sp))); gone = !vh_exists(pth) || !vh_exists(sp);
	  if (gone) DAMAGE("a %s second p_shm_buffer_new removed the name of the buffer the first handle still uses", b ? "successful" : "failed"); }
	if (b) { if (p_shm_buffer_read(b, out, 4, NULL) == 4 && memcmp(out, "0123", 4)) DAMAGE("buffer content wrong"); (void)p_shm_buffer_get_free_space(b, NULL); p_shm_buffer_free(b); }
	{ pssize used = -2, expect = -1; int wrote = 0, readn = 0; (void)wrote; (void)readn;
	  VA_QUIET(used = p_shm_buffer_get_used_space(a, NULL)); expect = used;
	  if (used != 0 && used != 10 && used != 6) DAMAGE("buffer holds %zd bytes after writing 10 and reading at most 4", (ssize_t)used);
	  if (used > 0) { char o2[16]; pssize n = -1; VA_QUIET(n = p_shm_buffer_read(a, o2, 16, NULL)); if (n != expect || memcmp(o2, "0123456789" + (10 - n), (size_t)n)) DAMAGE("first handle reads %zd bytes / wrong bytes after a (failed) second open", (ssize_t)n); } }
	p_shm_buffer_free(a);
}

static void sc_sockaddr(void) {
	PSocketAddress *a = p_socket_address_new("192.168.1.7", 80), *b = p_socket_address_new("fe80::1%lo", 443), *c = p_socket_address_new_any(P_SOCKET_FAMILY_INET6, 1), *d = p_socket_address_new_loopback(P_SOCKET_FAMILY_INET, 2), *e;
	unsigned char nat[64]; pchar *t;
	if (a) { t = p_socket_address_get_address(a); if (t && strcmp(t, "192.168.1.7")) DAMAGE("address text wrong"); p_free(t); if (p_socket_address_to_native(a, nat, sizeof nat)) { e = p_socket_address_new_from_native(nat, p_socket_address_get_native_size(a)); p_socket_address_free(e); } }
	if (a) { t = NULL; VA_QUIET(t = p_socket_address_get_address(a)); if (!t || strcmp(t, "192.168.1.7") || p_socket_address_get_port(a) != 80) DAMAGE("address object answers differently after a (failed) text conversion"); p_free(t); }
	if (b) { t = p_socket_address_get_address(b); p_free(t); }
	(void)p_socket_address_new("not an address", 1);
	p_socket_address_free(a); p_socket_address_free(b); p_socket_address_free(c); p_socket_address_free(d);
}

static void sc_socket_tcp(void) {
	PError *err = NULL; PSocketAddress *la = p_socket_address_new_loopback(P_SOCKET_FAMILY_INET, 0), *bound = NULL, *ra = NULL; PSocket *ls, *cl = NULL, *ac = NULL; char buf[32];
	ls = p_socket_new(P_SOCKET_FAMILY_INET, P_SOCKET_TYPE_STREAM, P_SOCKET_PROTOCOL_TCP, &err); p_error_free(err); err = NULL;
	if (ls && la && p_socket_bind(ls, la, TRUE, &err) && p_socket_listen(ls, &err)) {
		p_socket_set_timeout(ls, 300);
		bound = p_socket_get_local_address(ls, &err); p_error_free(err); err = NULL;
		cl = p_socket_new(P_SOCKET_FAMILY_INET, P_SOCKET_TYPE_STREAM, P_SOCKET_PROTOCOL_TCP, &err); p_error_free(err); err = NULL;
		if (cl && bound) {
			p_socket_set_timeout(cl, 300);
			if (p_socket_connect(cl, bound, &err)) {
				ac = p_socket_accept(ls, &err); p_error_free(err); err = NULL;
				if (ac) {
					p_socket_set_timeout(ac, 300);
					ra = p_socket_get_remote_address(ac, &err); p_error_free(err); err = NULL;
					if (p_socket_send(cl, "ping-ping", 9, &err) == 9) { pssize n = p_socket_receive(ac, buf, sizeof buf, &err); if (n > 0 && memcmp(buf, "ping-ping", (size_t)n)) DAMAGE("received bytes differ"); }
					p_error_free(err); err = NULL;
					(void)p_socket_shutdown(ac, TRUE, TRUE, &err); p_error_free(err); err = NULL;
				}
			}
			p_error_free(err); err = NULL;
		}
	}
	p_error_free(err); err = NULL;
	if (cl) { (void)p_socket_close(cl, &err); p_error_free(err); err = NULL; }
	p_socket_address_free(ra); p_socket_address_free(bound); p_socket_address_free(la);
	p_socket_free(ac); p_socket_free(cl); p_socket_free(ls);
}

static void sc_socket_udp(void) {
	PError *err = NULL; PSocketAddress *la = p_socket_address_new_loopback(P_SOCKET_FAMILY_INET6, 0), *ba = NULL, *from = NULL; PSocket *a, *b; char buf[32];
	a = p_socket_new(P_SOCKET_FAMILY_INET6, P_SOCKET_TYPE_DATAGRAM, P_SOCKET_PROTOCOL_UDP, &err); p_error_free(err); err = NULL;
	b = p_socket_new(P_SOCKET_FAMILY_INET6, P_SOCKET_TYPE_DATAGRAM, P_SOCKET_PROTOCOL_UDP, &err); p_error_free(err); err = NULL;
	if (a && b && la && p_socket_bind(a, la, FALSE, &err)) {
		p_socket_set_timeout(a, 300);
		ba = p_socket_get_local_address(a, &err); p_error_free(err); err = NULL;
		if (ba && p_socket_send_to(b, ba, "datagram", 8, &err) == 8) { pssize n = p_socket_receive_from(a, &from, buf, sizeof buf, &err); if (n > 0 && (n != 8 || memcmp(buf, "datagram", 8))) DAMAGE("datagram differs"); }
	}
	p_error_free(err);
	p_socket_address_free(from); p_socket_address_free(ba); p_socket_address_free(la); p_socket_free(a); p_socket_free(b);
}

static PUThreadKey *tkey; static volatile int tl_destroyed, th_ran;
static void tl_destroy(ppointer p) { (void)p; __sync_fetch_and_add(&tl_destroyed, 1); }
static ppointer th_fn(ppointer arg) {
	(void)arg; __sync_fetch_and_add(&th_ran, 1);
	if (tkey) { p_uthread_set_local(tkey, (ppointer)(uintptr_t)0x10); p_uthread_replace_local(tkey, (ppointer)(uintptr_t)0x20); (void)p_uthread_get_local(tkey); }
	(void)p_uthread_current();
	return NULL;
}
static ppointer th_exit_fn(ppointer arg) { (void)arg; __sync_fetch_and_add(&th_ran, 1); p_uthread_exit(42); return NULL; }
static void sc_thread(void) {
	PUThread *t1, *t2, *t3; int i;
	tkey = p_uthread_local_new(tl_destroy);
	t1 = p_uthread_create_full(th_fn, NULL, TRUE, P_UTHREAD_PRIORITY_INHERIT, 0, "a-very-long-thread-name-over-16");
	t2 = p_uthread_create(th_exit_fn, NULL, TRUE, "short");
	if (t1) { (void)p_uthread_join(t1); p_uthread_unref(t1); }
	if (t2) { if (p_uthread_join(t2) != 42) DAMAGE("exit code lost"); p_uthread_unref(t2); }
	t3 = p_uthread_create(th_fn, NULL, FALSE, NULL);
	if (t3) { void *blk = t3; p_uthread_ref(t3); p_uthread_unref(t3); p_uthread_unref(t3); for (i = 0; i < 20000 && va_is_live(blk); i++) usleep(1000); }     /* the detached thread drops the last reference when it exits */
	/* a creation the system refuses (a stack that cannot be mapped): the call fails, or yields a thread that is joined like any other */
	{ PUThread *t4 = p_uthread_create_full(th_fn, NULL, TRUE, P_UTHREAD_PRIORITY_INHERIT, (psize)1 << 60, "refused"); if (t4) { (void)p_uthread_join(t4); p_uthread_unref(t4); } }
	p_uthread_local_free(tkey); tkey = NULL;
}

static void *foreign_fn(void *a) { PUThread *me = p_uthread_current(); (void)a; if (me) { (void)p_uthread_current(); } if (tkey) p_uthread_set_local(tkey, (ppointer)(uintptr_t)0x30); return NULL; }
static void sc_thread_foreign(void) {
	pthread_t th; tkey = p_uthread_local_new(tl_destroy);
	if (pthread_create(&th, NULL, foreign_fn, NULL) == 0) pthread_join(th, NULL);
	(void)p_uthread_current();
	p_uthread_local_free(tkey); tkey = NULL;
}

static void sc_locks(void) {
	PMutex *m = p_mutex_new(); PCondVariable *c = p_cond_variable_new(); PRWLock *rw = p_rwlock_new(); PSpinLock *s = p_spinlock_new();
	if (m) { if (!p_mutex_lock(m) || !p_mutex_unlock(m)) DAMAGE("fresh mutex unusable"); if (p_mutex_trylock(m)) p_mutex_unlock(m); }
	if (c) { (void)p_cond_variable_signal(c); (void)p_cond_variable_broadcast(c); }
	if (rw) { if (!p_rwlock_reader_lock(rw) || !p_rwlock_reader_unlock(rw) || !p_rwlock_writer_lock(rw) || !p_rwlock_writer_unlock(rw)) DAMAGE("fresh rwlock unusable"); if (p_rwlock_writer_trylock(rw)) p_rwlock_writer_unlock(rw); }
	if (s) { if (!p_spinlock_lock(s) || !p_spinlock_unlock(s)) DAMAGE("fresh spinlock unusable"); }
	{ volatile pint ai = 0; p_atomic_int_inc(&ai); (void)p_atomic_int_get(&ai); }
	p_spinlock_free(s); p_rwlock_free(rw); p_cond_variable_free(c); p_mutex_free(m);
}

static void sc_profiler(void) { PTimeProfiler *p = p_time_profiler_new(); if (p) { (void)p_time_profiler_elapsed_usecs(p); p_time_profiler_reset(p); } p_time_profiler_free(p); }

static void sc_libloader(void) {
	static const char *cands[] = { "/lib/x86_64-linux-gnu/libm.so.6", "/usr/lib/x86_64-linux-gnu/libm.so.6", "/lib64/libm.so.6", "/usr/lib64/libm.so.6", "/lib/libm.so.6" };
	const char *path = cands[0]; int ci; PLibraryLoader *l, *bad, *notlib; pchar *e;
	for (ci = 0; ci < 5; ci++) if (access(cands[ci], R_OK) == 0) { path = cands[ci]; break; }
	l = p_library_loader_new(path); bad = p_library_loader_new("/nonexistent/libvf.so"); notlib = p_library_loader_new(inipath);      /* existing file that is not a library */
	p_library_loader_free(notlib);
	if (l) { (void)p_library_loader_get_symbol(l, "cos"); (void)p_library_loader_get_symbol(l, "no_such_symbol_vf"); e = p_library_loader_get_last_error(l); p_free(e); }
	e = p_library_loader_get_last_error(NULL); p_free(e);
	p_library_loader_free(bad); p_library_loader_free(l);
}

static void sc_file(void) { PError *err = NULL; (void)p_file_is_exists("/nonexistent/vf"); (void)p_file_remove("/nonexistent/vf", &err); p_error_free(err); }


/* ---- additional create/free sequences with failing exits (used by C20 and enumerated by C18 as well) ---- */
static PSocket *sc_listener(PSocketAddress **bound, int backlog, int timeout) {
	PSocketAddress *la = p_socket_address_new("127.0.0.1", 0); PSocket *ls = p_socket_new(P_SOCKET_FAMILY_INET, P_SOCKET_TYPE_STREAM, P_SOCKET_PROTOCOL_TCP, NULL);
	*bound = NULL;
	if (ls) { p_socket_set_listen_backlog(ls, backlog); p_socket_set_timeout(ls, timeout); }
	if (!ls || !la || !p_socket_bind(ls, la, TRUE, NULL) || !p_socket_listen(ls, NULL)) { p_socket_free(ls); p_socket_address_free(la); return NULL; }
	*bound = p_socket_get_local_address(ls, NULL); p_socket_address_free(la);
	if (!*bound) { p_socket_free(ls); return NULL; }
	return ls;
}
static void sc_sock_refused(void) {
	/* the target port is held by a bound socket that never listens: connections are refused and no other process can take the port meanwhile */
	PSocketAddress *la = p_socket_address_new_loopback(P_SOCKET_FAMILY_INET, 0), *bound = NULL; PSocket *holder, *c; PError *err = NULL;
	holder = p_socket_new(P_SOCKET_FAMILY_INET, P_SOCKET_TYPE_STREAM, P_SOCKET_PROTOCOL_TCP, &err); p_error_free(err); err = NULL;
	if (holder && la && p_socket_bind(holder, la, FALSE, &err)) bound = p_socket_get_local_address(holder, NULL);
	p_error_free(err); err = NULL;
	c = bound ? p_socket_new(P_SOCKET_FAMILY_INET, P_SOCKET_TYPE_STREAM, P_SOCKET_PROTOCOL_TCP, &err) : NULL; p_error_free(err); err = NULL;
	if (c) { p_socket_set_timeout(c, 300); if (p_socket_connect(c, bound, &err)) DAMAGE("connect to a port nobody listens on succeeded"); p_error_free(err); err = NULL; (void)p_socket_send(c, "x", 1, &err); p_error_free(err); err = NULL; }
	p_socket_free(c); p_socket_free(holder); p_socket_address_free(bound); p_socket_address_free(la);
}
static void sc_sock_timeouts(void) {
	PSocketAddress *bound = NULL; PSocket *ls = sc_listener(&bound, 0, 60), *fill[3] = { NULL, NULL, NULL }, *c, *ac; PError *err = NULL; int i; char b[8];
	if (!ls) return;
	ac = p_socket_accept(ls, &err); if (ac) DAMAGE("accept without a peer returned a socket"); p_error_free(err); err = NULL; p_socket_free(ac);
	for (i = 0; i < 3; i++) { fill[i] = p_socket_new(P_SOCKET_FAMILY_INET, P_SOCKET_TYPE_STREAM, P_SOCKET_PROTOCOL_TCP, NULL); if (fill[i]) { p_socket_set_blocking(fill[i], FALSE); (void)p_socket_connect(fill[i], bound, NULL); } }
	c = p_socket_new(P_SOCKET_FAMILY_INET, P_SOCKET_TYPE_STREAM, P_SOCKET_PROTOCOL_TCP, NULL);
	if (c) { p_socket_set_timeout(c, 80); (void)p_socket_connect(c, bound, &err); p_error_free(err); err = NULL; (void)p_socket_receive(c, b, sizeof b, &err); p_error_free(err); err = NULL; }
	p_socket_free(c); for (i = 0; i < 3; i++) p_socket_free(fill[i]);
	p_socket_free(ls); p_socket_address_free(bound);
}
static void sc_sock_bind_used(void) {
	PSocketAddress *bound = NULL; PSocket *ls = sc_listener(&bound, 5, 100), *o; PError *err = NULL;
	if (!ls) return;
	o = p_socket_new(P_SOCKET_FAMILY_INET, P_SOCKET_TYPE_STREAM, P_SOCKET_PROTOCOL_TCP, NULL);
	if (o) { if (p_socket_bind(o, bound, FALSE, &err)) DAMAGE("second bind to a listening port succeeded"); p_error_free(err); err = NULL; (void)p_socket_listen(o, &err); p_error_free(err); err = NULL; }
	(void)p_socket_close(ls, NULL); (void)p_socket_close(ls, NULL);
	(void)p_socket_send(ls, "x", 1, &err); p_error_free(err);
	p_socket_free(o); p_socket_free(ls); p_socket_address_free(bound);
}
static void sc_ipc_multi(void) {
	const char *sn = reg_name(0, "%s-msem", uniq), *mn = reg_name(1, "%s-mshm", uniq), *bn = reg_name(2, "%s-mbuf", uniq); int i;
	PSemaphore *s[3] = { NULL, NULL, NULL }; PShm *m[5] = { NULL, NULL, NULL, NULL, NULL }; PShmBuffer *b[4] = { NULL, NULL, NULL, NULL };
	static const psize msz[5] = { 3 * 4096, 3 * 4096, 5 * 4096, 4096, 0 }; static const psize bsz[4] = { 6000, 6000, 9000, 0 };
	s[0] = p_semaphore_new(sn, 1, P_SEM_ACCESS_CREATE, NULL); s[1] = p_semaphore_new(sn, 7, P_SEM_ACCESS_OPEN, NULL); s[2] = p_semaphore_new(sn, 0, P_SEM_ACCESS_OPEN, NULL);
	if (s[0]) p_semaphore_take_ownership(s[0]); else if (s[1]) p_semaphore_take_ownership(s[1]); else if (s[2]) p_semaphore_take_ownership(s[2]);
	if (s[0] && s[1] && p_semaphore_acquire(s[1], NULL)) p_semaphore_release(s[2] ? s[2] : s[1], NULL);
	p_semaphore_free(s[2]); p_semaphore_free(s[1]); p_semaphore_free(s[0]);
	for (i = 0; i < 5; i++) m[i] = p_shm_new(mn, msz[i], i == 3 ? P_SHM_ACCESS_READONLY : P_SHM_ACCESS_READWRITE, NULL);
	{ int wrote = 0;
	if (m[0]) { p_shm_take_ownership(m[0]); if (p_shm_lock(m[0], NULL)) { memset(p_shm_get_address(m[0]), 7, p_shm_get_size(m[0])); p_shm_unlock(m[0], NULL); wrote = 1; } }
	else for (i = 1; i < 5; i++) if (m[i]) { p_shm_take_ownership(m[i]); break; }      /* somebody must own the name */
	for (i = 1; i < 5; i++) if (wrote && m[i] && p_shm_get_size(m[i]) && ((unsigned char *)p_shm_get_address(m[i]))[p_shm_get_size(m[i]) - 1] != 7) DAMAGE("handle %d does not see the segment bytes", i);
	}
	for (i = 4; i >= 0; i--) p_shm_free(m[i]);
	for (i = 0; i < 4; i++) b[i] = p_shm_buffer_new(bn, bsz[i], NULL);
	if (!b[0]) for (i = 1; i < 4; i++) if (b[i]) { p_shm_buffer_take_ownership(b[i]); break; }
	if (b[0]) { p_shm_buffer_take_ownership(b[0]); p_shm_buffer_clear(b[0]); (void)p_shm_buffer_write(b[0], (ppointer)"abcdef", 6, NULL); }
	for (i = 1; i < 4; i++) if (b[i]) (void)p_shm_buffer_get_used_space(b[i], NULL);
	for (i = 3; i >= 0; i--) p_shm_buffer_free(b[i]);
	{ PError *err = NULL; PShm *z = p_shm_new(reg_name(1, "%s-zero", uniq), 0, P_SHM_ACCESS_READWRITE, &err); p_error_free(err); if (z) { p_shm_take_ownership(z); p_shm_free(z); } }
}
static volatile int det_done;
static ppointer det_fn(ppointer a) { (void)a; if (tkey) p_uthread_set_local(tkey, (ppointer)(uintptr_t)0x40); __sync_fetch_and_add(&det_done, 1); return NULL; }
static ppointer join_fn(ppointer a) { PUThreadKey *k2 = a; if (k2) { p_uthread_set_local(k2, (ppointer)(uintptr_t)0x50); p_uthread_replace_local(k2, (ppointer)(uintptr_t)0x60); p_uthread_set_local(k2, NULL); } p_uthread_exit(-3); return NULL; }
static void sc_threads_tls(void) {
	PUThreadKey *k2 = p_uthread_local_new(NULL); PUThread *t[4]; int i, want = det_done;
	tkey = p_uthread_local_new(tl_destroy);
	for (i = 0; i < 2; i++) { t[i] = p_uthread_create(join_fn, k2, TRUE, "joinable"); }
	for (i = 2; i < 4; i++) { t[i] = p_uthread_create(det_fn, NULL, FALSE, NULL); if (t[i]) want++; }
	for (i = 0; i < 2; i++) if (t[i]) { p_uthread_ref(t[i]); if (p_uthread_join(t[i]) != -3) DAMAGE("exit code lost"); p_uthread_unref(t[i]); p_uthread_unref(t[i]); }
	{ void *blk[4]; for (i = 2; i < 4; i++) { blk[i] = t[i]; if (t[i]) p_uthread_unref(t[i]); }
	  for (i = 0; i < 3000 && det_done < want; i++) usleep(1000);
	  for (i = 2; i < 4; i++) { int w; for (w = 0; blk[i] && w < 20000 && va_is_live(blk[i]); w++) usleep(1000); } }      /* wait until the detached threads have run their TLS destructors and dropped their handle */
	p_uthread_local_free(tkey); tkey = NULL; p_uthread_local_free(k2);
}

/* socket built around a descriptor the caller opened: on success the socket owns it (freed = closed exactly once), on failure the
 * caller still owns it (the library must not have closed it) */
#include <sys/socket.h>
#include <netinet/in.h>
static void sc_sock_fromfd(void) {
	int kind;
	for (kind = 0; kind < 3; kind++) {
		PError *err = NULL; PSocket *s; int fd = kind == 2 ? open("/dev/null", O_RDONLY) : socket(kind ? AF_INET6 : AF_INET, kind ? SOCK_STREAM : SOCK_DGRAM, 0);
		if (fd < 0) continue;
#ifdef WRAP_SYS_H
		if (kind == 2) w_fd_note_open(fd);
#endif
		s = p_socket_new_from_fd(fd, &err); p_error_free(err); err = NULL;
		if (!s) { if (fcntl(fd, F_GETFD) == -1) DAMAGE("failed p_socket_new_from_fd closed the caller's descriptor"); close(fd); continue; }
		if (kind == 2) { DAMAGE("p_socket_new_from_fd accepted a descriptor that is not a socket"); p_socket_free(s); continue; }
		if (p_socket_get_fd(s) != fd) DAMAGE("socket from descriptor reports another descriptor");
		if (p_socket_get_family(s) != (kind ? P_SOCKET_FAMILY_INET6 : P_SOCKET_FAMILY_INET) || p_socket_get_type(s) != (kind ? P_SOCKET_TYPE_STREAM : P_SOCKET_TYPE_DATAGRAM))
			DAMAGE("socket from descriptor reports family %d type %d", (int)p_socket_get_family(s), (int)p_socket_get_type(s));
		{ PSocketAddress *la = p_socket_address_new_loopback(kind ? P_SOCKET_FAMILY_INET6 : P_SOCKET_FAMILY_INET, 0), *b = NULL;
		  if (la && p_socket_bind(s, la, FALSE, &err)) { b = p_socket_get_local_address(s, &err); if (b && p_socket_address_get_port(b) == 0) DAMAGE("bound socket reports port 0"); }
		  p_error_free(err); err = NULL; p_socket_address_free(b); p_socket_address_free(la); }
		if (kind == 1) { (void)p_socket_close(s, &err); p_error_free(err); err = NULL; }
		p_socket_free(s);
		if (fcntl(fd, F_GETFD) != -1) { DAMAGE("descriptor still open after the socket that owned it was freed"); close(fd); }
	}
	{ PError *err = NULL; PSocket *s = p_socket_new_from_fd(-1, &err); if (s) { DAMAGE("socket from descriptor -1"); p_socket_free(s); } p_error_free(err); }
}

/* anonymous mappings through p_mem_mmap / p_mem_munmap */
static void sc_mem_mmap(void) {
	PError *err = NULL; unsigned char *m = p_mem_mmap(3 * 4096 + 17, &err), vec[8]; p_error_free(err); err = NULL;
	if (m) {
		memset(m, 0x7e, 3 * 4096 + 17);
		if (!p_mem_munmap(m, 3 * 4096 + 17, &err)) DAMAGE("p_mem_munmap of a mapping obtained from p_mem_mmap failed");
		else if (mincore((void *)m, 4 * 4096, vec) == 0) DAMAGE("mapping still present after p_mem_munmap");
		p_error_free(err); err = NULL;
	}
	m = p_mem_mmap(0, &err); p_error_free(err); err = NULL; if (m) (void)p_mem_munmap(m, 0, NULL);
	(void)p_mem_munmap(NULL, 4096, &err); p_error_free(err);
}

/* a buffer opened on a segment that exists under its name but is too small to be a buffer: the call fails, nothing may stay behind */
static void sc_shmbuffer_small_segment(void) {
	const char *name = reg_name(1, "%s-tiny", uniq); PError *err = NULL; PShm *tiny; PShmBuffer *b; int sz;
	for (sz = 1; sz <= 17; sz += 8) {
		tiny = p_shm_new(name, (psize)sz, P_SHM_ACCESS_READWRITE, &err); p_error_free(err); err = NULL;
		if (!tiny) return;
		b = p_shm_buffer_new(name, 100, &err); p_error_free(err); err = NULL;
		if (b) { DAMAGE("p_shm_buffer_new accepted a %d byte segment", sz); p_shm_buffer_free(b); }
		b = p_shm_buffer_new(name, 0, &err); p_error_free(err); err = NULL;
		if (b) p_shm_buffer_free(b);
		if (p_shm_get_size(tiny) != (psize)sz) DAMAGE("the small segment reports size %zu after a failed buffer open", (size_t)p_shm_get_size(tiny));
		p_shm_take_ownership(tiny); p_shm_free(tiny);
	}
}

/* several threads make the first use of one fresh TLS key at the same moment (the key's native part is created lazily) */
static PUThreadKey *fu_key; static volatile int fu_go, fu_ready;
static ppointer fu_fn(ppointer a) { (void)a; __sync_fetch_and_add(&fu_ready, 1); while (!__atomic_load_n(&fu_go, __ATOMIC_ACQUIRE)) ; (void)p_uthread_get_local(fu_key); p_uthread_set_local(fu_key, (ppointer)(uintptr_t)0x70); return NULL; }
static void sc_tls_first_use(void) {
	int round, i;
	for (round = 0; round < 6; round++) {
		PUThread *t[4]; int n = 0, spins;
		fu_key = p_uthread_local_new(NULL); if (!fu_key) return;
		fu_go = 0; fu_ready = 0;
		for (i = 0; i < 4; i++) { t[n] = p_uthread_create(fu_fn, NULL, TRUE, NULL); if (t[n]) n++; }
		for (spins = 0; spins < 2000000 && fu_ready < n; spins++) if ((spins & 1023) == 1023) usleep(50);
		__atomic_store_n(&fu_go, 1, __ATOMIC_RELEASE);
		for (i = 0; i < n; i++) { (void)p_uthread_join(t[i]); p_uthread_unref(t[i]); }
		p_uthread_local_free(fu_key); fu_key = NULL;
	}
}

/* CREATE mode over a name that a vanished process left behind: the creating handle owns the new object, its free removes the name */
#include <semaphore.h>
static void sc_sem_create_over_stale(void) {
	const char *name = reg_name(0, "%s-stale", uniq); char key[16]; sem_t *raw; PSemaphore *s; PError *err = NULL;
	VA_QUIET(vh_ipc_key(name, VH_SEM_SUFFIX, key));
	raw = sem_open(key, O_CREAT, 0660, 1); if (raw == SEM_FAILED) return; sem_close(raw);          /* stale name, nobody holds it */
	s = p_semaphore_new(name, 2, P_SEM_ACCESS_CREATE, &err); p_error_free(err);
	if (!s) { sem_unlink(key); return; }
	if (!p_semaphore_acquire(s, NULL) || !p_semaphore_release(s, NULL)) DAMAGE("semaphore created over a stale name cannot be acquired/released");
	p_semaphore_free(s);
}

static int in_reinit;
static void sc_init_shutdown(void) { PMemVTable vt = va_vtable(); in_reinit = 1; p_libsys_shutdown(); p_libsys_init_full(&vt); }

static struct { const char *name; void (*fn)(void); } SC[] = {
	{ "list", sc_list }, { "hashtable", sc_hashtable }, { "tree_bst", sc_tree_bst }, { "tree_rb", sc_tree_rb }, { "tree_avl", sc_tree_avl }, { "string", sc_string },
	{ "error", sc_error }, { "ini", sc_ini }, { "dir", sc_dir }, { "hash", sc_hash }, { "semaphore", sc_semaphore }, { "shm", sc_shm }, { "shmbuffer", sc_shmbuffer },
	{ "sockaddr", sc_sockaddr }, { "socket_tcp", sc_socket_tcp }, { "socket_udp", sc_socket_udp }, { "thread", sc_thread }, { "thread_foreign", sc_thread_foreign },
	{ "locks", sc_locks }, { "profiler", sc_profiler }, { "libloader", sc_libloader }, { "file", sc_file },
	{ "sock_refused", sc_sock_refused }, { "sock_timeouts", sc_sock_timeouts }, { "sock_bind_used", sc_sock_bind_used }, { "ipc_multi", sc_ipc_multi }, { "threads_tls", sc_threads_tls },
	{ "sock_fromfd", sc_sock_fromfd }, { "mem_mmap", sc_mem_mmap }, { "shmbuffer_small_segment", sc_shmbuffer_small_segment }, { "tls_first_use", sc_tls_first_use }, { "sem_create_over_stale", sc_sem_create_over_stale },
	{ "init_shutdown", sc_init_shutdown },
};
#define NSC ((int)(sizeof SC / sizeof SC[0]))

static void prepare_files(void) {
	FILE *f; char p[200]; int i;
	snprintf(inipath, sizeof inipath, "/dev/shm/vfC18-%d.ini", (int)getpid());
	f = fopen(inipath, "w"); if (!f) VH_DIE("ini file");
	fputs("[first]\nname = value one\nnum=42\nlist = {a b c}\n# c\n[second]\nflag = true\nd = 1.5e3 ; x\nq = \"quoted # text\"\n", f); fclose(f);
	snprintf(dirpath, sizeof dirpath, "/dev/shm/vfC18-%d.d", (int)getpid());
	mkdir(dirpath, 0755);
	for (i = 0; i < 3; i++) { snprintf(p, sizeof p, "%s/file%d", dirpath, i); f = fopen(p, "w"); if (f) fclose(f); }
	snprintf(p, sizeof p, "%s/subdir", dirpath); mkdir(p, 0755);
	/* entries that readdir reports but stat cannot resolve, plus a valid link */
	snprintf(p, sizeof p, "%s/dangling", dirpath); if (symlink("/nonexistent/vf-target", p)) {}
	snprintf(p, sizeof p, "%s/loop", dirpath); if (symlink("loop", p)) {}
	snprintf(p, sizeof p, "%s/link0", dirpath); if (symlink("file0", p)) {}
}
static void cleanup_files(void) {
	char p[200]; int i;
	unlink(inipath);
	for (i = 0; i < 3; i++) { snprintf(p, sizeof p, "%s/file%d", dirpath, i); unlink(p); }
	snprintf(p, sizeof p, "%s/dangling", dirpath); unlink(p); snprintf(p, sizeof p, "%s/loop", dirpath); unlink(p); snprintf(p, sizeof p, "%s/link0", dirpath); unlink(p);
	snprintf(p, sizeof p, "%s/subdir", dirpath); rmdir(p); snprintf(p, sizeof p, "%s/sub", dirpath); rmdir(p); rmdir(dirpath);
}


#endif

/* Common harness helpers: PRNG, JSON-line reporting, timing.  Header-only (static). */
#ifndef VH_H
#define VH_H

#include <stdint.h>
#include <stdio.h>
#include <stdlib.h>
#include <string.h>
#include <stdarg.h>
#include <time.h>
#include <unistd.h>

typedef struct { uint64_t s[4]; } vh_rng;

static inline uint64_t vh_splitmix(uint64_t *x) {
	uint64_t z = (*x += 0x9e3779b97f4a7c15ULL);
	z = (z ^ (z >> 30)) * 0xbf58476d1ce4e5b9ULL;
	z = (z ^ (z >> 27)) * 0x94d049bb133111ebULL;
	return z ^ (z >> 31);
}
static inline void vh_seed(vh_rng *r, uint64_t seed) {
	int i; for (i = 0; i < 4; i++) r->s[i] = vh_splitmix(&seed);
}
static inline uint64_t vh_rotl(uint64_t x, int k) { return (x << k) | (x >> (64 - k)); }
static inline uint64_t vh_next(vh_rng *r) {
	uint64_t *s = r->s, result = vh_rotl(s[1] * 5, 7) * 9, t = s[1] << 17;
	s[2] ^= s[0]; s[3] ^= s[1]; s[1] ^= s[2]; s[0] ^= s[3]; s[2] ^= t; s[3] = vh_rotl(s[3], 45);
	return result;
}
static inline uint64_t vh_below(vh_rng *r, uint64_t n) { return n ? vh_next(r) % n : 0; }
static inline int vh_chance(vh_rng *r, int pct) { return (int)(vh_next(r) % 100) < pct; }

static inline double vh_now(void) {
	struct timespec ts; clock_gettime(CLOCK_MONOTONIC, &ts);
	return ts.tv_sec + ts.tv_nsec * 1e-9;
}
static inline uint64_t vh_now_ns(void) {
	struct timespec ts; clock_gettime(CLOCK_MONOTONIC, &ts);
	return (uint64_t)ts.tv_sec * 1000000000ULL + ts.tv_nsec;
}

/* ---- reporting: one JSON object per line on stdout -------------------------------------------- */
static int vh_nviol = 0;
static int vh_max_viol = 20;

static void vh_json_str(FILE *f, const char *s) {
	fputc('"', f);
	for (; *s; s++) {
		unsigned char c = (unsigned char)*s;
		if (c == '"' || c == '\\') { fputc('\\', f); fputc(c, f); }
		else if (c < 0x20 || c >= 0x7f) fprintf(f, "\\u%04x", c);
		else fputc(c, f);
	}
	fputc('"', f);
}

/* report a violation: prop "C12", canonical key (no run-dependent numbers), free-text detail */
static void vh_viol(const char *prop, const char *key, const char *fmt, ...)
	__attribute__((format(printf, 3, 4)));
static void vh_viol(const char *prop, const char *key, const char *fmt, ...) {
	char buf[4096]; va_list ap;
	va_start(ap, fmt); vsnprintf(buf, sizeof buf, fmt, ap); va_end(ap);
	flockfile(stdout);
	fputs("{\"ev\":\"viol\",\"prop\":", stdout); vh_json_str(stdout, prop);
	fputs(",\"key\":", stdout); vh_json_str(stdout, key);
	fputs(",\"what\":", stdout); vh_json_str(stdout, buf);
	fputs("}\n", stdout); fflush(stdout);
	funlockfile(stdout);
	__sync_fetch_and_add(&vh_nviol, 1);
}

static void vh_line(const char *fmt, ...) __attribute__((format(printf, 1, 2)));
static void vh_line(const char *fmt, ...) {
	va_list ap; va_start(ap, fmt);
	flockfile(stdout); vprintf(fmt, ap); fputc('\n', stdout); fflush(stdout); funlockfile(stdout);
	va_end(ap);
}

static const char *vh_arg(int argc, char **argv, const char *name, const char *def) {
	int i; for (i = 1; i + 1 < argc; i++) if (!strcmp(argv[i], name)) return argv[i + 1];
	return def;
}
static long long vh_argi(int argc, char **argv, const char *name, long long def) {
	const char *s = vh_arg(argc, argv, name, NULL);
	return s ? strtoll(s, NULL, 0) : def;
}
static int vh_flag(int argc, char **argv, const char *name) {
	int i; for (i = 1; i < argc; i++) if (!strcmp(argv[i], name)) return 1;
	return 0;
}

#define VH_DIE(...) do { fprintf(stderr, "HARNESS: " __VA_ARGS__); fputc('\n', stderr); exit(2); } while (0)


/* Private loopback: move this process (and its future children/threads) into a network namespace of its own and bring `lo` up, so
 * that no other process of the machine (parallel drivers, the repository's own socket tests, ...) can bind, listen on or connect to
 * the ports a socket workload uses.  Returns 1 if isolated, 0 if the kernel/privileges do not allow it (the workload then runs on the
 * shared loopback as before).  Call before any thread or socket is created. */
#ifdef __linux__
#include <sched.h>
#include <sys/ioctl.h>
#include <sys/socket.h>
#include <net/if.h>
#include <fcntl.h>
extern int unshare(int);
#ifndef CLONE_NEWNET
#define CLONE_NEWNET 0x40000000
#endif
extern int setns(int, int);
static int vh_private_net(void) {
	int fd, ok = 0, oldns; struct ifreq ifr;
	if (getenv("VH_SHARED_NET")) return 0;
	oldns = open("/proc/self/ns/net", 0 /* O_RDONLY */);
	if (unshare(CLONE_NEWNET) != 0) { if (oldns >= 0) close(oldns); return 0; }
	fd = socket(AF_INET, SOCK_DGRAM, 0);
	if (fd >= 0) {
		memset(&ifr, 0, sizeof ifr); strcpy(ifr.ifr_name, "lo");
		if (ioctl(fd, SIOCGIFFLAGS, &ifr) == 0) { ifr.ifr_flags |= IFF_UP | IFF_RUNNING; ok = ioctl(fd, SIOCSIFFLAGS, &ifr) == 0; }
		close(fd);
	}
	if (!ok) {       /* no usable loopback in the new namespace: go back to the shared one */
		if (oldns < 0 || setns(oldns, CLONE_NEWNET) != 0) { fprintf(stderr, "vh_private_net: new network namespace without loopback and no way back\n"); exit(3); }
	}
	if (oldns >= 0) close(oldns);
	return ok;
}
#else
static int vh_private_net(void) { return 0; }
#endif

#endif

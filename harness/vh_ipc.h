/* IPC helpers for harnesses: platform key computed independently of pipc.c (SHA-1 through PCryptoHash, which C11
 * validates against hashlib), /dev/shm inspection. */
#ifndef VH_IPC_H
#define VH_IPC_H
#include <plibsys.h>
#include <sys/stat.h>
#include <sys/mman.h>
#include <fcntl.h>
#include "vh.h"

#define VH_SHM_SUFFIX "_p_shm_object"
#define VH_SEM_SUFFIX "_p_sem_object"

/* out: "/" + first 13 hex chars of sha1(name + suffix) */
static void vh_ipc_key(const char *name, const char *suffix, char out[16]) {
	PCryptoHash *h = p_crypto_hash_new(P_CRYPTO_HASH_TYPE_SHA1); pchar *s;
	p_crypto_hash_update(h, (const puchar *)name, strlen(name));
	p_crypto_hash_update(h, (const puchar *)suffix, strlen(suffix));
	s = p_crypto_hash_get_string(h);
	out[0] = '/'; memcpy(out + 1, s, 13); out[14] = 0;
	p_free(s); p_crypto_hash_free(h);
}
static void vh_shm_path(const char *name, char out[64]) { char k[16]; vh_ipc_key(name, VH_SHM_SUFFIX, k); snprintf(out, 64, "/dev/shm%s", k); }
/* semaphore that guards shm `name`: p_semaphore_new(platform_key_of_shm, ...) -> key derived from the shm key string */
static void vh_shm_sem_path(const char *name, char out[64]) { char k[16], k2[16]; vh_ipc_key(name, VH_SHM_SUFFIX, k); vh_ipc_key(k, VH_SEM_SUFFIX, k2); snprintf(out, 64, "/dev/shm/sem.%s", k2 + 1); }
static void vh_sem_path(const char *name, char out[64]) { char k[16]; vh_ipc_key(name, VH_SEM_SUFFIX, k); snprintf(out, 64, "/dev/shm/sem.%s", k + 1); }
/* counter of a glibc named semaphore read from its backing file (64-bit new_sem: value is the low 32 bits of the first word); -1 if unreadable */
static long vh_sem_file_value(const char *path) { unsigned int v; FILE *f = fopen(path, "rb"); size_t n; if (!f) return -1; n = fread(&v, sizeof v, 1, f); fclose(f); return n == 1 ? (long)v : -1; }
static int vh_exists(const char *path) { struct stat st; return stat(path, &st) == 0; }
static long long vh_fsize(const char *path) { struct stat st; return stat(path, &st) == 0 ? (long long)st.st_size : -1; }
#endif

/* C07 "in any thread": several threads of ONE process open, use and free segments of DIFFERENT names at the same time.
 * Names never collide, so nothing one thread does may be visible to another: every creation must yield a segment of exactly the
 * requested size whose bytes are all zero (fresh), the pattern written must read back, and after the owner's free the name is gone.
 * Run under ThreadSanitizer (data races inside p_shm_new / p_shm_free) and in the asan/plain builds (value oracles). */
#include "vh.h"
#include <plibsys.h>
#include <pthread.h>

typedef struct { int id; uint64_t seed; long iters; long long done, bytes; } Th;
static volatile int go;
static const psize sizes[] = { 64, 100, 4095, 4096, 4097, 8192, 12289, 65536 };

static void *worker(void *a) {
	Th *t = a; vh_rng r; long i; vh_seed(&r, t->seed);
	while (!__atomic_load_n(&go, __ATOMIC_ACQUIRE)) ;
	for (i = 0; i < t->iters && vh_nviol < vh_max_viol; i++) {
		char name[96]; psize want = sizes[vh_below(&r, 8)], got, k; PShm *s, *s2 = NULL; PError *err = NULL; unsigned char *p; unsigned char tag = (unsigned char)(1 + ((t->id * 37 + i) & 0x7f));
		/* short names (the usual case) and a few long ones; distinct per thread and iteration */
		if (vh_chance(&r, 85)) snprintf(name, sizeof name, "vfT%d-%d-%ld", (int)getpid() % 100000, t->id, i % 7);
		else snprintf(name, sizeof name, "vfT%d-%d-%ld-a-long-name-that-needs-more-room-than-a-small-buffer-has", (int)getpid() % 100000, t->id, i % 7);
		s = p_shm_new(name, want, P_SHM_ACCESS_READWRITE, &err);
		if (!s) { vh_viol("C07", "threads symptom=new-failed", "thread %d: p_shm_new(%s, %zu) failed: %s (native %d)", t->id, name, (size_t)want, err ? p_error_get_message(err) : "", err ? p_error_get_native_code(err) : 0); p_error_free(err); continue; }
		got = p_shm_get_size(s); p = p_shm_get_address(s);
		if (got != want) vh_viol("C07", "threads symptom=creator-size", "thread %d: creator of %s asked for %zu bytes and sees %zu", t->id, name, (size_t)want, (size_t)got);
		else if (!p) vh_viol("C07", "threads symptom=no-address", "thread %d: no address for %s", t->id, name);
		else {
			for (k = 0; k < got; k++) if (p[k]) { vh_viol("C07", "threads symptom=fresh-segment-not-zero", "thread %d: fresh segment %s has byte %u at offset %zu", t->id, name, p[k], (size_t)k); break; }
			if (!p_shm_lock(s, NULL)) vh_viol("C07", "threads symptom=lock-failed", "thread %d: p_shm_lock(%s) failed", t->id, name);
			memset(p, tag, got);
			if (vh_chance(&r, 50)) {      /* a second handle of the same name in the same thread: same bytes, same size */
				s2 = p_shm_new(name, want, P_SHM_ACCESS_READONLY, NULL);
				if (!s2) vh_viol("C07", "threads symptom=second-open-failed", "thread %d: second p_shm_new(%s) failed", t->id, name);
				else { const unsigned char *p2 = p_shm_get_address(s2); if (p_shm_get_size(s2) != want) vh_viol("C07", "threads symptom=second-size", "thread %d: second handle of %s reports %zu, not %zu", t->id, name, (size_t)p_shm_get_size(s2), (size_t)want);
					else if (p2) for (k = 0; k < want; k++) if (p2[k] != tag) { vh_viol("C07", "threads symptom=bytes-differ", "thread %d: second handle of %s reads %u at %zu, %u was written", t->id, name, p2[k], (size_t)k, tag); break; } }
			}
			sched_yield();
			for (k = 0; k < got; k++) if (p[k] != tag) { vh_viol("C07", "threads symptom=foreign-bytes", "thread %d: %s holds byte %u at offset %zu, this thread wrote %u and nobody else knows the name", t->id, name, p[k], (size_t)k, tag); break; }
			(void)p_shm_unlock(s, NULL);
			t->bytes += (long long)got;
		}
		if (s2) p_shm_free(s2);
		p_shm_take_ownership(s); p_shm_free(s);
		t->done++;
	}
	return NULL;
}

int main(int argc, char **argv) {
	int n = (int)vh_argi(argc, argv, "--threads", 4), i; long iters = (long)vh_argi(argc, argv, "--iters", 2000); uint64_t seed = (uint64_t)vh_argi(argc, argv, "--seed", 1); double t0 = vh_now();
	pthread_t th[32]; Th t[32]; long long done = 0, bytes = 0;
	if (n > 32) n = 32;
	p_libsys_init();
	for (i = 0; i < n; i++) { t[i].id = i; t[i].seed = seed * 1000003ULL + (uint64_t)i; t[i].iters = iters; t[i].done = t[i].bytes = 0; pthread_create(&th[i], NULL, worker, &t[i]); }
	__atomic_store_n(&go, 1, __ATOMIC_RELEASE);
	for (i = 0; i < n; i++) { pthread_join(th[i], NULL); done += t[i].done; bytes += t[i].bytes; }
	p_libsys_shutdown();
	printf("{\"ev\":\"stats\",\"threads\":%d,\"segments\":%lld,\"bytes_checked\":%lld,\"viol\":%d,\"wall\":%.2f}\n", n, done, bytes, vh_nviol, vh_now() - t0);
	return 0;
}

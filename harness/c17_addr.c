/* c17_addr: PSocketAddress conversions against the platform's inet_pton/inet_ntop/getaddrinfo view (C17).
 * All native buffers handed to the library are exact-size heap blocks, so ASan reports any access beyond them. */
#include <plibsys.h>
#include <arpa/inet.h>
#include <netinet/in.h>
#include <netdb.h>
#include <sys/socket.h>
#include <sys/un.h>
#include <ctype.h>
#include "vh.h"

static long long st_cases, st_ok4, st_ok6, st_rej, st_native_len, st_tonative_len, st_ports, st_scoped, st_roundtrips;
static const char *cur_class = "-";

static uint64_t *dset; static size_t dcap = 1 << 22, dcnt;
static void dset_add_str(const char *s, unsigned port) {
	uint64_t h = 1469598103934665603ULL ^ port; size_t i;
	for (; *s; s++) h = (h ^ (unsigned char)*s) * 1099511628211ULL;
	if (!h) h = 1;
	if (!dset) dset = calloc(dcap, 8);
	if (dcnt * 2 > dcap) return;
	i = h & (dcap - 1);
	while (dset[i]) { if (dset[i] == h) return; i = (i + 1) & (dcap - 1); }
	dset[i] = h; dcnt++;
}

static void viol(const char *symptom, const char *fmt, ...) __attribute__((format(printf, 2, 3)));
static void viol(const char *symptom, const char *fmt, ...) {
	char key[200], buf[1500]; va_list ap;
	va_start(ap, fmt); vsnprintf(buf, sizeof buf, fmt, ap); va_end(ap);
	snprintf(key, sizeof key, "class=%s symptom=%s", cur_class, symptom);
	if (vh_nviol < vh_max_viol) vh_viol("C17", key, "%s", buf);
}

static void printable(const char *s, char *out, size_t cap) {
	size_t o = 0; for (; *s && o + 5 < cap; s++) { if (isprint((unsigned char)*s)) out[o++] = *s; else o += snprintf(out + o, cap - o, "\\x%02x", (unsigned char)*s); } out[o] = 0;
}

/* expected view of an address */
typedef struct { int fam; unsigned char a[16]; unsigned port; uint32_t flow, scope; } Exp;

static int exp_is_any(const Exp *e) { int i, n = e->fam == 4 ? 4 : 16; for (i = 0; i < n; i++) if (e->a[i]) return 0; return 1; }
static int exp_is_loop(const Exp *e) { int i; if (e->fam == 4) return e->a[0] == 127; for (i = 0; i < 15; i++) if (e->a[i]) return 0; return e->a[15] == 1; }

static void *exact_copy(const void *src, size_t n) { unsigned char *p = malloc(n ? n : 1); if (n) memcpy(p, src, n); return p; }

/* compare every getter of a library address with the expectation */
static int check_addr(PSocketAddress *a, const Exp *e, const char *ctx) {
	char want[INET6_ADDRSTRLEN + 1]; pchar *txt;
	PSocketFamily ef = e->fam == 4 ? P_SOCKET_FAMILY_INET : P_SOCKET_FAMILY_INET6;
	if (p_socket_address_get_family(a) != ef) { viol("family", "%s: family %d expected %d", ctx, p_socket_address_get_family(a), ef); return 0; }
	if (p_socket_address_get_port(a) != e->port) { viol("port", "%s: port %u expected %u", ctx, p_socket_address_get_port(a), e->port); return 0; }
	if (p_socket_address_get_native_size(a) != (e->fam == 4 ? sizeof(struct sockaddr_in) : sizeof(struct sockaddr_in6))) { viol("native-size", "%s: native size %zu", ctx, (size_t)p_socket_address_get_native_size(a)); return 0; }
	inet_ntop(e->fam == 4 ? AF_INET : AF_INET6, e->a, want, sizeof want);
	txt = p_socket_address_get_address(a);
	if (!txt || strcmp(txt, want)) { viol("text", "%s: text '%s' expected '%s'", ctx, txt ? txt : "(null)", want); p_free(txt); return 0; }
	p_free(txt);
	if ((p_socket_address_is_any(a) != FALSE) != exp_is_any(e)) { viol("is-any", "%s: is_any %d for %s", ctx, p_socket_address_is_any(a), want); return 0; }
	if ((p_socket_address_is_loopback(a) != FALSE) != exp_is_loop(e)) { viol("is-loopback", "%s: is_loopback %d for %s", ctx, p_socket_address_is_loopback(a), want); return 0; }
	if (p_socket_address_get_flow_info(a) != (e->fam == 6 ? e->flow : 0)) { viol("flowinfo", "%s: flow %u expected %u", ctx, p_socket_address_get_flow_info(a), e->flow); return 0; }
	if (p_socket_address_get_scope_id(a) != (e->fam == 6 ? e->scope : 0)) { viol("scope", "%s: scope %u expected %u", ctx, p_socket_address_get_scope_id(a), e->scope); return 0; }
	return 1;
}

/* to_native into an exact buffer, compare with hand-packed structure, and back */
static void roundtrip_native(PSocketAddress *a, const Exp *e, const char *ctx) {
	size_t ns = e->fam == 4 ? sizeof(struct sockaddr_in) : sizeof(struct sockaddr_in6);
	unsigned char *buf = malloc(ns); PSocketAddress *b;
	memset(buf, 0x5A, ns);
	if (!p_socket_address_to_native(a, buf, ns)) { viol("to-native-failed", "%s: to_native failed with exact size", ctx); free(buf); return; }
	if (e->fam == 4) {
		struct sockaddr_in s; memcpy(&s, buf, sizeof s);
		if (s.sin_family != AF_INET || memcmp(&s.sin_addr, e->a, 4) || ((unsigned char *)&s.sin_port)[0] != (e->port >> 8) || ((unsigned char *)&s.sin_port)[1] != (e->port & 255))
			viol("to-native-content", "%s: sockaddr_in fields wrong", ctx);
	} else {
		struct sockaddr_in6 s; memcpy(&s, buf, sizeof s);
		if (s.sin6_family != AF_INET6 || memcmp(&s.sin6_addr, e->a, 16) || ((unsigned char *)&s.sin6_port)[0] != (e->port >> 8) || ((unsigned char *)&s.sin6_port)[1] != (e->port & 255)
		    || s.sin6_flowinfo != e->flow || s.sin6_scope_id != e->scope)
			viol("to-native-content", "%s: sockaddr_in6 fields wrong (flow %u/%u scope %u/%u)", ctx, s.sin6_flowinfo, e->flow, s.sin6_scope_id, e->scope);
	}
	b = p_socket_address_new_from_native(buf, ns);
	if (!b) viol("from-native-failed", "%s: from_native(to_native(a)) failed", ctx);
	else { check_addr(b, e, "native-roundtrip"); p_socket_address_free(b); st_roundtrips++; }
	free(buf);
}

/* one text case: compare creation result with the platform */
static void text_case(const char *s, unsigned port) {
	Exp e; int ok = 0; PSocketAddress *a; char pr[300];
	memset(&e, 0, sizeof e); e.port = port;
	st_cases++; dset_add_str(s, port);
	if (strchr(s, ':')) {
		struct addrinfo hints, *res = NULL;
		memset(&hints, 0, sizeof hints); hints.ai_family = AF_UNSPEC; hints.ai_socktype = SOCK_STREAM; hints.ai_flags = AI_NUMERICHOST;
		if (getaddrinfo(s, NULL, &hints, &res) == 0) {
			if (res->ai_family == AF_INET6) { struct sockaddr_in6 *s6 = (struct sockaddr_in6 *)res->ai_addr; ok = 1; e.fam = 6; memcpy(e.a, &s6->sin6_addr, 16); e.scope = s6->sin6_scope_id; e.flow = s6->sin6_flowinfo; }
			freeaddrinfo(res);
		}
	} else {
		struct in_addr v4;
		if (inet_pton(AF_INET, s, &v4) > 0) { ok = 1; e.fam = 4; memcpy(e.a, &v4, 4); }
	}
	a = p_socket_address_new(s, (puint16)port);
	printable(s, pr, sizeof pr);
	if ((a != NULL) != ok) { viol(ok ? "rejected-valid-text" : "accepted-invalid-text", "p_socket_address_new(\"%s\") %s but the platform %s it", pr, a ? "succeeded" : "failed", ok ? "accepts" : "rejects"); if (a) p_socket_address_free(a); return; }
	if (!a) { st_rej++; return; }
	if (e.fam == 4) st_ok4++; else st_ok6++;
	if (e.scope) st_scoped++;
	if (check_addr(a, &e, "from-text")) {
		pchar *t; PSocketAddress *b;
		roundtrip_native(a, &e, "from-text");
		/* text -> address -> text -> address */
		t = p_socket_address_get_address(a);
		b = p_socket_address_new(t, (puint16)port);
		if (!b) viol("text-roundtrip", "own text form '%s' not accepted back", t);
		else { Exp e2 = e; e2.scope = 0; e2.flow = 0; check_addr(b, &e2, "text-roundtrip"); p_socket_address_free(b); st_roundtrips++; }
		p_free(t);
	}
	p_socket_address_free(a);
}

static const char *HEXL = "0123456789abcdef", *HEXU = "0123456789ABCDEF";

/* produce a textual variant of 16 address bytes */
static void v6_variant(vh_rng *r, const unsigned char *b, char *out, size_t cap) {
	unsigned g[8]; int i, style = (int)vh_below(r, 6); size_t o = 0;
	for (i = 0; i < 8; i++) g[i] = (b[2 * i] << 8) | b[2 * i + 1];
	if (style == 0) { inet_ntop(AF_INET6, b, out, (socklen_t)cap); return; }
	if (style == 1) { for (i = 0; i < 8; i++) o += snprintf(out + o, cap - o, "%s%04x", i ? ":" : "", g[i]); return; }
	if (style == 2) { for (i = 0; i < 8; i++) o += snprintf(out + o, cap - o, "%s%X", i ? ":" : "", g[i]); return; }
	if (style == 3) { /* compress some zero run (possibly not the longest) */
		int s = -1, l = 0, j;
		for (i = 0; i < 8; i++) if (g[i] == 0 && vh_chance(r, 60)) { s = i; for (j = i; j < 8 && g[j] == 0; j++); l = j - i; if (vh_chance(r, 30) && l > 1) l--; break; }
		if (s < 0) { for (i = 0; i < 8; i++) o += snprintf(out + o, cap - o, "%s%x", i ? ":" : "", g[i]); return; }
		for (i = 0; i < s; i++) o += snprintf(out + o, cap - o, "%x:", g[i]);
		if (s == 0) o += snprintf(out + o, cap - o, ":");
		if (s + l == 8) o += snprintf(out + o, cap - o, ":");
		for (i = s + l; i < 8; i++) o += snprintf(out + o, cap - o, ":%x", g[i]);
		return;
	}
	if (style == 4) { /* dotted tail */
		for (i = 0; i < 6; i++) o += snprintf(out + o, cap - o, "%x:", g[i]);
		snprintf(out + o, cap - o, "%u.%u.%u.%u", b[12], b[13], b[14], b[15]); return;
	}
	for (i = 0; i < 8; i++) { o += snprintf(out + o, cap - o, "%s", i ? ":" : ""); if (vh_chance(r, 50)) o += snprintf(out + o, cap - o, "%x", g[i]); else { out[o++] = HEXU[(g[i] >> 12) & 15]; out[o++] = HEXL[(g[i] >> 8) & 15]; out[o++] = HEXU[(g[i] >> 4) & 15]; out[o++] = HEXL[g[i] & 15]; out[o] = 0; } }
}

static void gen_v6_bytes(vh_rng *r, unsigned char *b) {
	int i, k = (int)vh_below(r, 12);
	for (i = 0; i < 16; i++) b[i] = (unsigned char)vh_next(r);
	switch (k) {
	case 0: memset(b, 0, 16); break;
	case 1: memset(b, 0, 16); b[15] = 1; break;
	case 2: memset(b, 0, 10); b[10] = b[11] = 0xff;                        /* v4-mapped, half of them with a special embedded IPv4 address */
		if (vh_chance(r, 50)) { static const unsigned char sp[6][4] = { {0,0,0,0}, {127,0,0,1}, {127,255,255,255}, {255,255,255,255}, {0,0,0,1}, {128,0,0,0} }; memcpy(b + 12, sp[vh_below(r, 6)], 4); } break;
	case 3: memset(b, 0, 12); if (vh_chance(r, 40)) { static const unsigned char sp[4][4] = { {0,0,0,0}, {0,0,0,1}, {127,0,0,1}, {0,0,0,2} }; memcpy(b + 12, sp[vh_below(r, 4)], 4); } break;    /* v4-compatible */
	case 4: b[0] = 0xfe; b[1] = 0x80; memset(b + 2, 0, 6); break;           /* link-local */
	case 5: b[0] = 0xff; b[1] = 0x02; break;                                /* multicast link-local */
	case 6: { int s = (int)vh_below(r, 8), l = 1 + (int)vh_below(r, 8 - s); memset(b + 2 * s, 0, 2 * l); break; }
	case 7: { int s = (int)vh_below(r, 8), l = 1 + (int)vh_below(r, 8 - s); memset(b + 2 * s, 0, 2 * l); s = (int)vh_below(r, 8); b[2 * s] = b[2 * s + 1] = 0; break; }
	case 8: memset(b, 0, 16); b[vh_below(r, 16)] = (unsigned char)(1 + vh_below(r, 255)); break;
	case 9: memset(b, 0xff, 16); break;
	default: break;
	}
}

static void mutate(vh_rng *r, char *s, size_t cap) {
	size_t n = strlen(s); int k = (int)vh_below(r, 6); size_t p = n ? vh_below(r, n) : 0;
	static const char alphabet[] = "0123456789abcdefABCDEFg:.%/ -+x\t";
	char c = alphabet[vh_below(r, sizeof alphabet - 1)];
	if (vh_chance(r, 3)) c = (char)(1 + vh_below(r, 255));
	switch (k) {
	case 0: if (n) s[p] = c; break;
	case 1: if (n + 2 < cap) { memmove(s + p + 1, s + p, n - p + 1); s[p] = c; } break;
	case 2: if (n) memmove(s + p, s + p + 1, n - p); break;
	case 3: if (n + 2 < cap) { s[n] = c; s[n + 1] = 0; } break;
	case 4: if (n + 2 < cap) { memmove(s + 1, s, n + 1); s[0] = c; } break;
	default: if (n > 1) s[p] = 0; break;
	}
}

static void run_text(vh_rng *r, long long n) {
	long long i; char s[1200]; unsigned char b[16];
	static const char *fixed[] = { "", " ", "0.0.0.0", "127.0.0.1", "127.0.0.0", "127.255.255.255", "128.0.0.0", "126.255.255.255", "255.255.255.255", "1.2.3", "1.2.3.4.5", "01.2.3.4",
		"1.2.3.4 ", " 1.2.3.4", "1.2.3.4:80", "1.2.3.256", "1..2.3", "0x7f.0.0.1", "2130706433", "::", "::1", "::0", "0::0", "::ffff:1.2.3.4", "::1.2.3.4", "fe80::1%1", "fe80::1%lo",
		"fe80::1%nonexistent0", "fe80::1%", "fe80::1%4294967295", "fe80::1%4294967296", "ff02::1%lo", "::1%lo", "2001:db8::1%1", ":::", "1::2::3", "12345::1", "1:2:3:4:5:6:7:8:9", "1:2:3:4:5:6:7", "1:2:3:4:5:6:7:8",
		"1:2:3:4:5:6:7::", "::2:3:4:5:6:7:8", "[::1]", "::1/128", "localhost", "a", ":", "::ffff:256.1.1.1", "::ffff:1.2.3", "0:0:0:0:0:0:0:0", "0:0:0:0:0:0:0:1", "::FFFF:127.0.0.1", "g::1",
		/* IPv4-mapped / -compatible / translated forms of the special IPv4 addresses: the platform classifies the 128-bit value, not the embedded one */
		"::ffff:0.0.0.0", "0:0:0:0:0:ffff::", "::ffff:0:0", "::ffff:127.0.0.1", "::ffff:255.255.255.255", "::0.0.0.0", "::127.0.0.1", "::0.0.0.1", "64:ff9b::", "64:ff9b::127.0.0.1", "::ffff:0.0.0.1", "0:0:0:0:0:0:0.0.0.0", "::1:0:0", "1::", "::8000:0:0:0" };
	cur_class = "text-fixed";
	for (i = 0; i < (long long)(sizeof fixed / sizeof fixed[0]); i++) text_case(fixed[i], (unsigned)vh_below(r, 65536));
	memset(s, '1', 1100); s[1100] = 0; text_case(s, 1);
	memset(s, ':', 1100); s[1100] = 0; text_case(s, 1);
	/* all first octets x boundary tails */
	cur_class = "text-v4-boundary";
	for (i = 0; i < 256; i++) { static const char *tails[] = { "0.0.0", "0.0.1", "255.255.255", "255.255.254", "0.0.255", "128.0.0", "1.1.1" }; unsigned t;
		for (t = 0; t < 7; t++) { snprintf(s, sizeof s, "%lld.%s", i, tails[t]); text_case(s, (unsigned)vh_below(r, 65536)); } }
	for (i = 0; i < n && vh_nviol < vh_max_viol; i++) {
		unsigned port = vh_chance(r, 10) ? (vh_chance(r, 50) ? 0 : 65535) : (unsigned)vh_below(r, 65536);
		int k = (int)vh_below(r, 10);
		if (k < 3) { cur_class = "text-v4-random"; snprintf(s, sizeof s, "%u.%u.%u.%u", (unsigned)vh_below(r, 256), (unsigned)vh_below(r, 256), (unsigned)vh_below(r, 256), (unsigned)vh_below(r, 256)); }
		else if (k < 7) { cur_class = "text-v6-forms"; gen_v6_bytes(r, b); v6_variant(r, b, s, sizeof s);
			if (vh_chance(r, 15)) { size_t l = strlen(s); static const char *sc[] = { "%1", "%lo", "%2", "%77", "%eth9", "%0" }; snprintf(s + l, sizeof s - l, "%s", sc[vh_below(r, 6)]); cur_class = "text-v6-scope"; } }
		else { cur_class = "text-mutated"; if (vh_chance(r, 50)) snprintf(s, sizeof s, "%u.%u.%u.%u", (unsigned)vh_below(r, 256), (unsigned)vh_below(r, 256), (unsigned)vh_below(r, 256), (unsigned)vh_below(r, 256)); else { gen_v6_bytes(r, b); v6_variant(r, b, s, sizeof s); }
			mutate(r, s, sizeof s); if (vh_chance(r, 30)) mutate(r, s, sizeof s); }
		text_case(s, port);
	}
}

static void run_native(vh_rng *r, long long n) {
	long long i;
	for (i = 0; i < n && vh_nviol < vh_max_viol; i++) {
		Exp e; size_t full, len; unsigned char raw[sizeof(struct sockaddr_in6) + 16]; int famk = (int)vh_below(r, 10);
		memset(&e, 0, sizeof e); memset(raw, 0xC3, sizeof raw);
		e.port = (unsigned)vh_below(r, 65536);
		if (famk < 4) { struct sockaddr_in s; memset(&s, 0, sizeof s); e.fam = 4; { uint32_t x = (uint32_t)vh_next(r); if (vh_chance(r, 20)) x = vh_chance(r, 50) ? 0 : htonl(0x7f000000u | (uint32_t)vh_below(r, 1 << 24)); memcpy(e.a, &x, 4); }
			s.sin_family = AF_INET; memcpy(&s.sin_addr, e.a, 4); s.sin_port = htons((uint16_t)e.port); memcpy(raw, &s, sizeof s); full = sizeof s; }
		else if (famk < 8) { struct sockaddr_in6 s; memset(&s, 0, sizeof s); e.fam = 6; gen_v6_bytes(r, e.a); e.flow = (uint32_t)vh_next(r); e.scope = (uint32_t)vh_next(r); if (vh_chance(r, 30)) e.flow = e.scope = 0;
			s.sin6_family = AF_INET6; memcpy(&s.sin6_addr, e.a, 16); s.sin6_port = htons((uint16_t)e.port); s.sin6_flowinfo = e.flow; s.sin6_scope_id = e.scope; memcpy(raw, &s, sizeof s); full = sizeof s; }
		else { struct sockaddr sa; memset(&sa, 0, sizeof sa); e.fam = 0; sa.sa_family = (sa_family_t)(famk == 8 ? AF_UNIX : (vh_chance(r, 50) ? AF_UNSPEC : (int)vh_below(r, 65536))); if (sa.sa_family == AF_INET || sa.sa_family == AF_INET6) sa.sa_family = AF_UNIX; memcpy(raw, &sa, sizeof sa); full = sizeof(struct sockaddr_in6); }
		/* every length 0 .. full+8 with an exact-size heap copy */
		cur_class = e.fam == 4 ? "from-native-v4" : e.fam == 6 ? "from-native-v6" : "from-native-otherfamily";
		for (len = 0; len <= full + 8; len++) {
			void *c = exact_copy(raw, len); PSocketAddress *a = p_socket_address_new_from_native(c, len);
			int expect_ok = e.fam && len >= full;
			st_native_len++;
			if ((a != NULL) != expect_ok) viol(expect_ok ? "from-native-rejected" : "from-native-accepted-short", "from_native family %d len %zu (structure %zu): %s", e.fam, len, full, a ? "accepted" : "rejected");
			else if (a) { check_addr(a, &e, "from-native"); }
			if (a && len == full) {
				size_t dl; PSocketAddress *b2;
				/* to_native into every destination length */
				cur_class = e.fam == 4 ? "to-native-v4" : "to-native-v6";
				for (dl = 0; dl <= sizeof(struct sockaddr_in6) + 8; dl++) {
					unsigned char *d = malloc(dl ? dl : 1); size_t j; int okk, bad = 0;
					memset(d, 0x77, dl ? dl : 1);
					okk = p_socket_address_to_native(a, d, dl) != FALSE;
					st_tonative_len++;
					if (okk != (dl >= full)) viol(okk ? "to-native-accepted-short" : "to-native-rejected", "to_native family %d destlen %zu (needs %zu) returned %d", e.fam, dl, full, okk);
					else if (!okk) { for (j = 0; j < dl; j++) if (d[j] != 0x77) bad = 1; if (bad) viol("to-native-wrote-on-failure", "to_native failed (destlen %zu) but modified the buffer", dl); }
					else { for (j = full; j < dl; j++) if (d[j] != 0x77) bad = 1; if (bad) viol("to-native-wrote-beyond", "to_native wrote beyond the structure size"); if (memcmp(d, raw, e.fam == 4 ? 8 : full)) viol("to-native-content", "to_native bytes differ from the original structure"); }
					free(d);
				}
				/* flow / scope setters */
				if (e.fam == 6) { Exp e2 = e; e2.flow = (uint32_t)vh_next(r); e2.scope = (uint32_t)vh_next(r); p_socket_address_set_flow_info(a, e2.flow); p_socket_address_set_scope_id(a, e2.scope); cur_class = "setters-v6"; if (check_addr(a, &e2, "setters")) roundtrip_native(a, &e2, "setters"); }
				else { p_socket_address_set_flow_info(a, 7); p_socket_address_set_scope_id(a, 9); cur_class = "setters-v4"; check_addr(a, &e, "setters-v4-ignored"); }
				b2 = NULL; (void)b2;
				cur_class = e.fam == 4 ? "from-native-v4" : "from-native-v6";
			}
			if (a) p_socket_address_free(a);
			free(c);
		}
	}
}

static void run_ports(void) {
	unsigned p;
	for (p = 0; p < 65536; p++) {
		Exp e4, e6; PSocketAddress *a;
		memset(&e4, 0, sizeof e4); memset(&e6, 0, sizeof e6);
		e4.fam = 4; e4.a[0] = 10; e4.a[3] = 9; e4.port = p; e6.fam = 6; e6.a[0] = 0x20; e6.a[1] = 1; e6.a[15] = 7; e6.port = p;
		cur_class = "ports-v4"; a = p_socket_address_new("10.0.0.9", (puint16)p); if (!a) { viol("new-failed", "port %u", p); continue; } if (check_addr(a, &e4, "port")) roundtrip_native(a, &e4, "port"); p_socket_address_free(a);
		cur_class = "ports-v6"; a = p_socket_address_new("2001::7", (puint16)p); if (!a) { viol("new-failed", "port %u", p); continue; } if (check_addr(a, &e6, "port")) roundtrip_native(a, &e6, "port"); p_socket_address_free(a);
		st_ports += 2;
		if ((p & 0xfff) == 0) {
			Exp ea; memset(&ea, 0, sizeof ea); ea.port = p;
			cur_class = "any-loopback-ctor";
			ea.fam = 4; a = p_socket_address_new_any(P_SOCKET_FAMILY_INET, (puint16)p); if (a) { check_addr(a, &ea, "any4"); p_socket_address_free(a); } else viol("new-failed", "any4");
			ea.fam = 6; a = p_socket_address_new_any(P_SOCKET_FAMILY_INET6, (puint16)p); if (a) { check_addr(a, &ea, "any6"); p_socket_address_free(a); } else viol("new-failed", "any6");
			ea.fam = 6; ea.a[15] = 1; a = p_socket_address_new_loopback(P_SOCKET_FAMILY_INET6, (puint16)p); if (a) { check_addr(a, &ea, "loop6"); p_socket_address_free(a); } else viol("new-failed", "loop6");
			a = p_socket_address_new_loopback(P_SOCKET_FAMILY_INET, (puint16)p);
			if (a) { if (!p_socket_address_is_loopback(a) || p_socket_address_get_port(a) != p || p_socket_address_get_family(a) != P_SOCKET_FAMILY_INET) viol("loopback-ctor", "IPv4 loopback constructor result is not a loopback address"); p_socket_address_free(a); } else viol("new-failed", "loop4");
			if (p_socket_address_new_any(P_SOCKET_FAMILY_UNKNOWN, 1) != NULL) viol("unknown-family", "new_any(UNKNOWN) succeeded");
		}
	}
}

int main(int argc, char **argv) {
	vh_rng r; double t0 = vh_now(); const char *mode = vh_arg(argc, argv, "--mode", "text"); long long n = vh_argi(argc, argv, "--n", 10000);
	vh_seed(&r, (uint64_t)vh_argi(argc, argv, "--seed", 1) * 11400714819323198485ULL + mode[0]);
	p_libsys_init();
	if (!strcmp(mode, "text")) run_text(&r, n); else if (!strcmp(mode, "native")) run_native(&r, n); else run_ports();
	p_libsys_shutdown();
	printf("{\"ev\":\"stats\",\"mode\":\"%s\",\"text_cases\":%lld,\"distinct_text\":%zu,\"accepted_v4\":%lld,\"accepted_v6\":%lld,\"rejected\":%lld,\"scoped\":%lld,\"roundtrips\":%lld,"
	       "\"from_native_lengths\":%lld,\"to_native_lengths\":%lld,\"ports\":%lld,\"viol\":%d,\"wall\":%.2f}\n",
	       mode, st_cases, dcnt, st_ok4, st_ok6, st_rej, st_scoped, st_roundtrips, st_native_len, st_tonative_len, st_ports, vh_nviol, vh_now() - t0);
	return 0;
}

/* Link-time (-Wl,--wrap=) interposition of the libc calls plibsys makes: fault injection by plan, call counters,
 * descriptor life-cycle table.  Used by the C09, C10, C19, C20 drivers (sources: wrap_sys.c). */
#ifndef WRAP_SYS_H
#define WRAP_SYS_H
#include <stdint.h>

enum { W_SEM_WAIT, W_SEM_OPEN, W_SHM_OPEN, W_CLOCK_NANOSLEEP, W_NANOSLEEP, W_POLL, W_CONNECT, W_ACCEPT, W_RECV, W_RECVFROM,
       W_SEND, W_SENDTO, W_CLOSE, W_SOCKET, W_SEM_POST, W_SEM_CLOSE, W_SEM_UNLINK, W_SHM_UNLINK, W_FTRUNCATE, W_MMAP, W_MUNMAP, W_N };
extern const char *w_names[W_N];

#define WK_EINTR    1   /* return -1/EINTR (clock_nanosleep: return EINTR) without performing the call */
#define WK_EAGAIN   2   /* return -1/EAGAIN without performing the call (only sensible on non-blocking descriptors) */
#define WK_SHORT    4   /* perform a stream send/recv with a reduced length (>= 1) */
#define WK_SPURIOUS 8   /* poll: report the requested events as ready without waiting */

#define WM_OFF    0
#define WM_AT     1     /* inject on calls k .. k+burst-1 (1-based call number since w_reset) */
#define WM_EVERY  2     /* inject on every k-th call */
#define WM_RANDOM 3     /* inject with probability k percent (decided by hash(seed, id, callno)) */

void w_reset(void);                                              /* all plans off, counters zero */
void w_plan(int id, int mode, long k, int burst, int kinds, uint64_t seed);
long w_calls(int id);
long w_injected(int id);
long w_injected_kind(int id, int kind);

/* per-thread observation counters (reset by the harness around one API call) */
extern __thread long w_t_fdcalls;    /* wrapped calls that carried a descriptor >= 0 */
extern __thread long w_t_polls;      /* poll() calls */
extern __thread long w_t_calls;      /* all wrapped calls */

/* descriptor life-cycle: descriptors handed out by socket()/accept()/shm_open() through the wrappers */
#define W_MAXFD 4096
typedef struct { int open; long opens, closes, double_close, close_unowned; } WFd;
void w_fd_stats(long *opened, long *closed, long *still_open, long *double_close, long *unowned_close);
int  w_fd_is_tracked_open(int fd);
void w_fd_track_enable(int on);      /* count close() of descriptors that were never handed out as `unowned` */
extern int w_fd_exhausted;           /* set: sem_open / shm_open fail with EMFILE as if the descriptor table were full */
void w_fd_note_open(int fd);         /* a descriptor the harness opened by a call that is not wrapped (open): enters the life-cycle table like a socket */
void w_fd_mark_owned(int fd);        /* harness-owned fd: closing it through plibsys would be `unowned`; closing by harness is fine */

/* crash points: kill the process (SIGKILL) right before (phase 0) or right after (phase 1) the n-th wrapped call overall */
void w_crash_at(long n, int phase);
long w_total_calls(void);
extern volatile int w_log_on;         /* when set every wrapped call is appended to w_log */
extern int w_log_ids[4096]; extern volatile int w_log_n;
#endif

/* hash_agent: executes hash call sequences given on stdin against PCryptoHash and prints what the API returned.
 *   hash_agent <blobfile>            case lines:  <algo> op op ...
 *        u:<off>:<len>  update with blob[off..off+len) copied into an exact-size heap block (ASan sees over-reads)
 *        z:<len> / f:<len>  update with len bytes of 0x00 / 0xff
 *        r reset   s get_string   d:<bufsize> get_digest into an exact-size heap buffer   l get_length/type
 *   hash_agent --large <algo> <total> <chunk> <prefixlen>
 *        hashes prefixlen bytes 0x01.. then `total` zero bytes fed in chunks of `chunk` (0 = one single update)
 *        from a lazily mapped zero region; prints the hex digest.
 */
#include <plibsys.h>
#include <sys/mman.h>
#include "vh.h"

static unsigned char *blob; static size_t bloblen;

static void hex(const unsigned char *d, size_t n, char *out) {
	static const char *h = "0123456789abcdef"; size_t i;
	for (i = 0; i < n; i++) { out[2 * i] = h[d[i] >> 4]; out[2 * i + 1] = h[d[i] & 15]; }
	out[2 * n] = 0;
}

static int run_large(int argc, char **argv) {
	int algo = atoi(argv[2]); unsigned long long total = strtoull(argv[3], NULL, 0), chunk = strtoull(argv[4], NULL, 0), prefix = strtoull(argv[5], NULL, 0);
	unsigned long long maplen = chunk ? chunk : total, done = 0; unsigned char *z, pre[256]; PCryptoHash *h; pchar *s; unsigned i;
	double t0 = vh_now();
	z = mmap(NULL, maplen ? maplen : 4096, PROT_READ, MAP_PRIVATE | MAP_ANONYMOUS | MAP_NORESERVE, -1, 0);
	if (z == MAP_FAILED) VH_DIE("mmap %llu failed", maplen);
	h = p_crypto_hash_new((PCryptoHashType)algo);
	if (!h) VH_DIE("hash new");
	for (i = 0; i < sizeof pre; i++) pre[i] = (unsigned char)(i + 1);
	if (prefix) p_crypto_hash_update(h, pre, (psize)prefix);
	if (!chunk) p_crypto_hash_update(h, z, (psize)total);
	else while (done < total) { unsigned long long n = total - done < chunk ? total - done : chunk; p_crypto_hash_update(h, z, (psize)n); done += n; }
	s = p_crypto_hash_get_string(h);
	printf("{\"ev\":\"large\",\"algo\":%d,\"total\":%llu,\"chunk\":%llu,\"prefix\":%llu,\"hex\":\"%s\",\"wall\":%.1f}\n", algo, total, chunk, prefix, s ? s : "NULL", vh_now() - t0);
	p_free(s); p_crypto_hash_free(h);
	return 0;
}

int main(int argc, char **argv) {
	char *line = NULL; size_t cap = 0; ssize_t n; FILE *f; long long cases = 0, ops = 0;
	p_libsys_init();
	if (argc >= 6 && !strcmp(argv[1], "--large")) { int rc = run_large(argc, argv); p_libsys_shutdown(); return rc; }
	if (argc < 2) VH_DIE("usage");
	f = fopen(argv[1], "rb"); if (!f) VH_DIE("blob");
	fseek(f, 0, SEEK_END); bloblen = (size_t)ftell(f); fseek(f, 0, SEEK_SET);
	blob = malloc(bloblen); if (fread(blob, 1, bloblen, f) != bloblen) VH_DIE("blob read"); fclose(f);
	while ((n = getline(&line, &cap, stdin)) > 0) {
		char *tok, *save; PCryptoHash *h; int algo;
		tok = strtok_r(line, " \n", &save); if (!tok) continue;
		algo = atoi(tok);
		h = p_crypto_hash_new((PCryptoHashType)algo);
		if (!h) { printf("NEWFAIL\n"); continue; }
		cases++;
		while ((tok = strtok_r(NULL, " \n", &save))) {
			ops++;
			if (tok[0] == 'u') {
				size_t off, len; unsigned char *b;
				if (sscanf(tok, "u:%zu:%zu", &off, &len) != 2 || off + len > bloblen) VH_DIE("bad u");
				b = malloc(len ? len : 1); memcpy(b, blob + off, len);
				p_crypto_hash_update(h, b, len); free(b);
			} else if (tok[0] == 'z' || tok[0] == 'f') {
				size_t len = strtoull(tok + 2, NULL, 10); unsigned char *b = malloc(len ? len : 1);
				memset(b, tok[0] == 'z' ? 0 : 0xff, len); p_crypto_hash_update(h, b, len); free(b);
			} else if (tok[0] == 'r') p_crypto_hash_reset(h);
			else if (tok[0] == 's') { pchar *s = p_crypto_hash_get_string(h); printf("%s ", s ? s : "NULL"); p_free(s); }
			else if (tok[0] == 'l') printf("%zd:%d ", (ssize_t)p_crypto_hash_get_length(h), (int)p_crypto_hash_get_type(h));
			else if (tok[0] == 'd') {
				size_t bs = strtoull(tok + 2, NULL, 10), i; psize len = bs; unsigned char *b = malloc(bs ? bs : 1); char hx[200]; int touched = 0;
				memset(b, 0xA5, bs ? bs : 1);
				p_crypto_hash_get_digest(h, b, &len);
				if (len > bs) { printf("OVERLEN:%zu ", (size_t)len); }
				else {
					for (i = len; i < bs; i++) if (b[i] != 0xA5) touched = 1;
					hex(b, len <= 64 ? len : 64, hx);
					printf("%zu:%s%s ", (size_t)len, hx, touched ? ":TOUCHED" : "");
				}
				free(b);
			} else VH_DIE("bad op %s", tok);
		}
		p_crypto_hash_free(h);
		printf("\n");
	}
	fflush(stdout);
	fprintf(stderr, "{\"ev\":\"stats\",\"cases\":%lld,\"ops\":%lld}\n", cases, ops);
	p_libsys_shutdown();
	return 0;
}

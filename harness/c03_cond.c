/* c03_cond: PCondVariable monitors (C03).
 *  - bounded buffer, P producers x C consumers (two condvars + signal | one condvar + broadcast): exactly-once, per-producer
 *    order, termination (progress watchdog)
 *  - wait returns with the mutex held (prober trylock must fail while the woken waiter is still inside)
 *  - one broadcast wakes all registered waiters; one signal wakes at least one
 * Protected data is plain memory (TSan builds decide the atomicity of release-and-wait). */
#include <plibsys.h>
#include <pthread.h>
#include <sched.h>
#include "vh.h"

static const char *scen = "-";
static void viol(const char *symptom, const char *fmt, ...) __attribute__((format(printf, 2, 3)));
static void viol(const char *symptom, const char *fmt, ...) {
	char key[200], buf[1000]; va_list ap;
	va_start(ap, fmt); vsnprintf(buf, sizeof buf, fmt, ap); va_end(ap);
	snprintf(key, sizeof key, "scenario=%s symptom=%s", scen, symptom);
	if (vh_nviol < vh_max_viol) vh_viol("C03", key, "%s", buf);
}

static volatile long long progress; static int wd_limit_s = 45;
static void *wd_fn(void *a) {
	long long last = -1; int idle = 0; (void)a;
	for (;;) { long long p; sleep(1); p = __atomic_load_n(&progress, __ATOMIC_RELAXED); if (p != last) { last = p; idle = 0; } else if (++idle >= wd_limit_s) { viol("no-progress", "no item exchanged / no waiter arrived for %d s: a wake-up was lost or a wait never returned", wd_limit_s); fflush(stdout); _exit(0); } }
	return NULL;
}

/* ---------------- bounded buffer ---------------- */
#define MAXT 64
typedef struct { unsigned prod, seq; } Item;
static PMutex *mu; static PCondVariable *cv_ne, *cv_nf;
static Item ring[8]; static int cap, head, cnt; static long long consumed_total, target; static int inside;      /* all protected by mu */
static int use_bcast, sig_outside, prod_try; static int P_, C_; static long long N_; static long long st_try_runs, st_try_acquisitions;
static unsigned *clog[MAXT]; static long long clog_n[MAXT];
static long long st_waits, st_items, st_runs, st_spurious_returns;
static long long in_bad[MAXT * 2];

static void enter(int slot) { if (inside) in_bad[slot]++; inside = 1; }
static void leave(void) { inside = 0; }

static void *producer(void *a) {
	int id = (int)(intptr_t)a; long long s;
	for (s = 0; s < N_; s++) {
		if (prod_try) { while (!p_mutex_trylock(mu)) sched_yield(); __atomic_add_fetch(&st_try_acquisitions, 1, __ATOMIC_RELAXED); }      /* legal way to take the mutex: a waiter has released it, so this must succeed eventually */
		else p_mutex_lock(mu);
		enter(id);
		while (cnt == cap) { leave(); __atomic_add_fetch(&st_waits, 1, __ATOMIC_RELAXED); if (!p_cond_variable_wait(cv_nf, mu)) { viol("wait-failed", "p_cond_variable_wait returned FALSE"); } enter(id); }
		ring[(head + cnt) % cap].prod = (unsigned)id; ring[(head + cnt) % cap].seq = (unsigned)s; cnt++;
		leave();
		if (sig_outside) { p_mutex_unlock(mu); if (use_bcast) p_cond_variable_broadcast(cv_ne); else p_cond_variable_signal(cv_ne); }
		else { if (use_bcast) p_cond_variable_broadcast(cv_ne); else p_cond_variable_signal(cv_ne); p_mutex_unlock(mu); }
		__atomic_add_fetch(&progress, 1, __ATOMIC_RELAXED);
	}
	return NULL;
}
static void *consumer(void *a) {
	int id = (int)(intptr_t)a;
	for (;;) {
		Item it; int fin;
		p_mutex_lock(mu); enter(MAXT + id);
		while (cnt == 0 && consumed_total < target) { leave(); __atomic_add_fetch(&st_waits, 1, __ATOMIC_RELAXED); if (!p_cond_variable_wait(cv_ne, mu)) viol("wait-failed", "p_cond_variable_wait returned FALSE"); enter(MAXT + id); if (cnt == 0 && consumed_total < target) st_spurious_returns++; }
		if (cnt == 0) { leave(); p_mutex_unlock(mu); break; }
		it = ring[head]; head = (head + 1) % cap; cnt--; consumed_total++; fin = consumed_total == target;
		clog[id][clog_n[id]++] = (it.prod << 24) | it.seq;
		leave();
		if (sig_outside) { p_mutex_unlock(mu); if (use_bcast) p_cond_variable_broadcast(cv_nf); else p_cond_variable_signal(cv_nf); if (fin) p_cond_variable_broadcast(cv_ne); }
		else { if (use_bcast) p_cond_variable_broadcast(cv_nf); else p_cond_variable_signal(cv_nf); if (fin) p_cond_variable_broadcast(cv_ne); p_mutex_unlock(mu); }
		__atomic_add_fetch(&progress, 1, __ATOMIC_RELAXED);
	}
	return NULL;
}
static void run_buffer(int P, int C, long long N, int capacity, int bcast, int outside, int ptry) {
	pthread_t th[MAXT * 2]; int i, n = 0; unsigned char *seen; long long k; long long bad = 0;
	scen = bcast ? (outside ? "buffer-one-condvar-broadcast-outside-mutex" : "buffer-one-condvar-broadcast") : (outside ? "buffer-two-condvars-signal-outside-mutex" : "buffer-two-condvars-signal"); sig_outside = outside; prod_try = ptry; if (ptry) { st_try_runs++; scen = bcast ? "buffer-broadcast-producers-acquire-by-trylock" : "buffer-signal-producers-acquire-by-trylock"; }
	P_ = P; C_ = C; N_ = N; cap = capacity; head = cnt = 0; consumed_total = 0; target = (long long)P * N; use_bcast = bcast; inside = 0;
	mu = p_mutex_new(); cv_ne = p_cond_variable_new(); cv_nf = bcast ? cv_ne : p_cond_variable_new();
	if (!mu || !cv_ne || !cv_nf) VH_DIE("new");
	memset(in_bad, 0, sizeof in_bad);
	for (i = 0; i < C; i++) { clog[i] = malloc(sizeof(unsigned) * (size_t)(target + 1)); clog_n[i] = 0; }
	for (i = 0; i < C; i++) pthread_create(&th[n++], NULL, consumer, (void *)(intptr_t)i);
	for (i = 0; i < P; i++) pthread_create(&th[n++], NULL, producer, (void *)(intptr_t)i);
	for (i = 0; i < n; i++) pthread_join(th[i], NULL);
	for (i = 0; i < MAXT * 2; i++) bad += in_bad[i];
	if (bad) viol("mutex-not-held", "%lld times a thread found another thread inside the monitor after lock/wait returned", bad);
	seen = calloc((size_t)target, 1);
	for (i = 0; i < C && vh_nviol < vh_max_viol; i++) {
		long long last[MAXT]; int j; for (j = 0; j < MAXT; j++) last[j] = -1;
		for (k = 0; k < clog_n[i]; k++) { unsigned p = clog[i][k] >> 24, s = clog[i][k] & 0xffffff; if (p >= (unsigned)P || s >= (unsigned)N) { viol("unknown-item", "consumed an item that was never produced"); break; }
			if (seen[(size_t)p * N + s]++) { viol("duplicate", "item %u/%u consumed twice", p, s); break; } if ((long long)s <= last[p]) { viol("order", "items of producer %u seen out of order", p); break; } last[p] = s; }
	}
	for (k = 0; k < target; k++) if (!seen[k]) { viol("lost", "item %lld never consumed", k); break; }
	free(seen); for (i = 0; i < C; i++) free(clog[i]);
	st_items += target; st_runs++;
	if (!bcast) p_cond_variable_free(cv_nf);
	p_cond_variable_free(cv_ne); p_mutex_free(mu);
}

/* ---------------- wake scenarios ---------------- */
static int registered, go, tokens; static volatile int arrived, release_flag, awake_flag, probe_result;
static void *waiter(void *a) {
	(void)a;
	p_mutex_lock(mu); __atomic_add_fetch(&registered, 1, __ATOMIC_SEQ_CST);
	while (!go && tokens == 0) p_cond_variable_wait(cv_ne, mu);
	if (tokens > 0) tokens--;
	__atomic_add_fetch(&arrived, 1, __ATOMIC_SEQ_CST); __atomic_add_fetch(&progress, 1, __ATOMIC_RELAXED);
	p_mutex_unlock(mu);
	return NULL;
}
static void *waiter_hold(void *a) {     /* after waking stays inside until the prober has tried the mutex */
	(void)a;
	p_mutex_lock(mu); __atomic_add_fetch(&registered, 1, __ATOMIC_SEQ_CST);
	while (!go) p_cond_variable_wait(cv_ne, mu);
	__atomic_store_n(&awake_flag, 1, __ATOMIC_SEQ_CST);
	while (!__atomic_load_n(&release_flag, __ATOMIC_SEQ_CST)) sched_yield();
	p_mutex_unlock(mu);
	return NULL;
}
static long long st_wake_cases, st_waiters_woken, st_storm_rounds, st_trylock_probes;
/* several threads signal at the same instant, outside the mutex, for a single blocked consumer; every published token must be consumed */
static int storm_tokens, storm_stop; static long long storm_consumed; static pthread_barrier_t storm_bar; static int storm_K;
static void *storm_consumer(void *a) { (void)a; p_mutex_lock(mu); for (;;) { while (storm_tokens == 0 && !storm_stop) p_cond_variable_wait(cv_ne, mu); if (storm_tokens == 0) break; storm_tokens--; storm_consumed++; __atomic_add_fetch(&progress, 1, __ATOMIC_RELAXED); } p_mutex_unlock(mu); return NULL; }
static void *storm_signaller(void *a) { long long rounds = (long long)(intptr_t)a, i; for (i = 0; i < rounds; i++) { pthread_barrier_wait(&storm_bar); p_mutex_lock(mu); storm_tokens++; p_mutex_unlock(mu); pthread_barrier_wait(&storm_bar); p_cond_variable_signal(cv_ne); pthread_barrier_wait(&storm_bar); { int t; for (t = 0; t < 2000000; t++) { int left; p_mutex_lock(mu); left = storm_tokens; p_mutex_unlock(mu); if (!left) break; if (t > 1000) usleep(10); } } } return NULL; }
static void run_storm(int K, long long rounds) {
	pthread_t c, th[16]; int i;
	scen = "concurrent-signals-outside-mutex";
	mu = p_mutex_new(); cv_ne = p_cond_variable_new(); storm_tokens = 0; storm_stop = 0; storm_consumed = 0; storm_K = K;
	pthread_barrier_init(&storm_bar, NULL, (unsigned)K);
	pthread_create(&c, NULL, storm_consumer, NULL);
	for (i = 0; i < K; i++) pthread_create(&th[i], NULL, storm_signaller, (void *)(intptr_t)rounds);
	for (i = 0; i < K; i++) pthread_join(th[i], NULL);
	p_mutex_lock(mu); storm_stop = 1; p_cond_variable_broadcast(cv_ne); p_mutex_unlock(mu); pthread_join(c, NULL);
	if (storm_consumed != (long long)K * rounds) viol("signal-lost", "%lld of %lld tokens consumed after concurrent signals", storm_consumed, (long long)K * rounds);
	st_storm_rounds += rounds; pthread_barrier_destroy(&storm_bar); p_cond_variable_free(cv_ne); p_mutex_free(mu);
}
static void wait_registered(int W) { for (;;) { int r; p_mutex_lock(mu); r = registered; p_mutex_unlock(mu); if (r == W) return; sched_yield(); } }
static int wait_arrivals(int want, int ms) { int t; for (t = 0; t < ms * 10; t++) { if (__atomic_load_n(&arrived, __ATOMIC_SEQ_CST) >= want) return 1; usleep(100); } return __atomic_load_n(&arrived, __ATOMIC_SEQ_CST) >= want; }

/* one condition variable used with mutex A, then - after every waiter has left - with another mutex B: each wait must release and
 * re-acquire the mutex it was GIVEN */
static PMutex *mu2; static int registered2, go2; static volatile int arrived2; static long long st_repair_cases;
static void *waiter_two_mutexes(void *a) {
	(void)a;
	p_mutex_lock(mu); __atomic_add_fetch(&registered, 1, __ATOMIC_SEQ_CST);
	while (!go) p_cond_variable_wait(cv_ne, mu);
	__atomic_add_fetch(&arrived, 1, __ATOMIC_SEQ_CST); __atomic_add_fetch(&progress, 1, __ATOMIC_RELAXED);
	p_mutex_unlock(mu);
	while (!__atomic_load_n(&release_flag, __ATOMIC_SEQ_CST)) usleep(50);        /* phase 2 starts when nobody waits on the condition variable any more */
	p_mutex_lock(mu2); __atomic_add_fetch(&registered2, 1, __ATOMIC_SEQ_CST);
	while (!go2) p_cond_variable_wait(cv_ne, mu2);
	__atomic_add_fetch(&arrived2, 1, __ATOMIC_SEQ_CST); __atomic_add_fetch(&progress, 1, __ATOMIC_RELAXED);
	p_mutex_unlock(mu2);
	return NULL;
}
static int wait_count(volatile int *c, int want, int ms) { int t; for (t = 0; t < ms * 10; t++) { if (__atomic_load_n(c, __ATOMIC_SEQ_CST) >= want) return 1; usleep(100); } return __atomic_load_n(c, __ATOMIC_SEQ_CST) >= want; }
static void run_two_mutexes(int W) {
	pthread_t th[MAXT]; int i, t, got = 0;
	scen = "condvar-reused-with-second-mutex";
	mu = p_mutex_new(); mu2 = p_mutex_new(); cv_ne = p_cond_variable_new(); registered = registered2 = 0; go = go2 = 0; arrived = 0; arrived2 = 0; release_flag = 0;
	for (i = 0; i < W; i++) pthread_create(&th[i], NULL, waiter_two_mutexes, NULL);
	if (!wait_count((volatile int *)&registered, W, 20000)) viol("no-progress", "waiters did not register");
	p_mutex_lock(mu); go = 1; p_cond_variable_broadcast(cv_ne); p_mutex_unlock(mu);
	if (!wait_count(&arrived, W, 20000)) viol("broadcast-woke-too-few", "phase 1: one broadcast with %d waiters woke only %d", W, arrived);
	__atomic_store_n(&release_flag, 1, __ATOMIC_SEQ_CST);
	wait_count((volatile int *)&registered2, W, 20000);
	for (t = 0; t < 200000 && !(got = p_mutex_trylock(mu2)); t++) usleep(t < 1000 ? 10 : 100);
	if (!got) viol("mutex-not-released-by-wait", "%d threads wait on a condition variable with mutex B (the variable was used with mutex A before): B was never released in 20 s", W);
	else { go2 = 1; p_cond_variable_broadcast(cv_ne); p_mutex_unlock(mu2);
	       if (!wait_count(&arrived2, W, 20000)) viol("broadcast-woke-too-few", "phase 2 (second mutex): one broadcast with %d waiters woke only %d", W, arrived2); }
	if (__atomic_load_n(&arrived2, __ATOMIC_SEQ_CST) >= W) {
		for (i = 0; i < W; i++) pthread_join(th[i], NULL);
		if (!p_mutex_trylock(mu)) viol("foreign-mutex-touched", "mutex A is locked after the condition variable was waited on with mutex B only"); else p_mutex_unlock(mu);
		if (!p_mutex_trylock(mu2)) viol("mutex-not-released", "mutex B is still locked after all waiters returned and unlocked it"); else p_mutex_unlock(mu2);
		p_cond_variable_free(cv_ne); p_mutex_free(mu); p_mutex_free(mu2);
	}       /* else: threads are stuck; leave everything allocated, the run ends with the violation */
	st_repair_cases++; st_wake_cases++;
}

/* a producer that publishes a whole batch of events while holding the mutex once, signalling once per event ("any number of events"):
 * batch sizes around the powers of two, where a narrow internal counter would wrap */
static long long bt_avail, bt_taken; static int bt_stop; static long long st_batches, st_batch_events;
static void *batch_consumer(void *a) {
	(void)a;
	p_mutex_lock(mu); __atomic_add_fetch(&registered, 1, __ATOMIC_SEQ_CST);
	for (;;) {
		while (bt_avail == 0 && !bt_stop) p_cond_variable_wait(cv_ne, mu);
		if (bt_avail == 0 && bt_stop) break;
		bt_taken += bt_avail; bt_avail = 0; __atomic_add_fetch(&progress, 1, __ATOMIC_RELAXED);
		__atomic_store_n(&arrived, 1, __ATOMIC_SEQ_CST);
	}
	p_mutex_unlock(mu);
	return NULL;
}
static void run_batches(void) {
	static const long sizes[] = { 1, 2, 3, 255, 256, 257, 4095, 4096, 65535, 65536, 65537, 131072, 5 }; pthread_t c; int b, t; long i;
	scen = "batch-of-signals-under-one-lock";
	mu = p_mutex_new(); cv_ne = p_cond_variable_new(); registered = 0; bt_avail = bt_taken = 0; bt_stop = 0; arrived = 0;
	pthread_create(&c, NULL, batch_consumer, NULL);
	for (b = 0; b < (int)(sizeof sizes / sizeof sizes[0]) && vh_nviol < vh_max_viol; b++) {
		long long want;
		/* the consumer is parked in wait (it registered under the mutex and nothing is available) */
		for (t = 0; t < 200000 && __atomic_load_n(&registered, __ATOMIC_SEQ_CST) < 1; t++) usleep(100);
		p_mutex_lock(mu); __atomic_store_n(&arrived, 0, __ATOMIC_SEQ_CST);
		for (i = 0; i < sizes[b]; i++) { bt_avail++; p_cond_variable_signal(cv_ne); }
		want = bt_taken + sizes[b];
		p_mutex_unlock(mu);
		for (t = 0; t < 200000; t++) { long long got; p_mutex_lock(mu); got = bt_taken; p_mutex_unlock(mu); if (got >= want) break; usleep(100); }
		if (t == 200000) { viol("events-missed", "a batch of %ld events, each followed by a signal under one lock hold, was never consumed by the waiting consumer (20 s)", sizes[b]); break; }
		st_batches++; st_batch_events += sizes[b];
	}
	p_mutex_lock(mu); bt_stop = 1; p_cond_variable_broadcast(cv_ne); p_mutex_unlock(mu);
	if (vh_nviol == 0 || bt_taken > 0) { struct timespec ts; clock_gettime(CLOCK_REALTIME, &ts); ts.tv_sec += 5; if (pthread_timedjoin_np(c, NULL, &ts) == 0) { p_cond_variable_free(cv_ne); p_mutex_free(mu); } }
}
/* condition variables created by several threads at the same moment (right after one was freed) are distinct objects: two variables that
 * share one waiter queue would let a signal for one wake a waiter of the other only */
static pthread_barrier_t nr_bar; static PCondVariable *nr_got[8]; static long long st_new_races;
static void *nr_fn(void *a) { int i = (int)(intptr_t)a; pthread_barrier_wait(&nr_bar); nr_got[i] = p_cond_variable_new(); return NULL; }
static void run_new_race(int rounds) {
	int k, i, j; scen = "concurrent-constructors";
	for (k = 0; k < rounds && vh_nviol < vh_max_viol; k++) {
		pthread_t th[4]; int T = 2 + (k & 1) * 2; PCondVariable *old = p_cond_variable_new();
		p_cond_variable_free(old);
		pthread_barrier_init(&nr_bar, NULL, (unsigned)T);
		for (i = 0; i < T; i++) pthread_create(&th[i], NULL, nr_fn, (void *)(intptr_t)i);
		for (i = 0; i < T; i++) pthread_join(th[i], NULL);
		pthread_barrier_destroy(&nr_bar);
		for (i = 0; i < T; i++) for (j = i + 1; j < T; j++) if (nr_got[i] && nr_got[i] == nr_got[j]) { viol("same-object-twice", "two threads calling p_cond_variable_new at the same moment received the same object"); nr_got[j] = NULL; }
		for (i = 0; i < T; i++) if (nr_got[i]) p_cond_variable_free(nr_got[i]);
		st_new_races++; __atomic_add_fetch(&progress, 1, __ATOMIC_RELAXED);
	}
}
static void run_wake(int W, int mode) {      /* mode 0 broadcast-all, 1 signal-one, 2 mutex-held-on-return */
	pthread_t th[MAXT]; int i;
	mu = p_mutex_new(); cv_ne = p_cond_variable_new(); registered = 0; go = 0; tokens = 0; arrived = 0; release_flag = 0; awake_flag = 0;
	if (mode == 2) W = 1;
	for (i = 0; i < W; i++) pthread_create(&th[i], NULL, mode == 2 ? waiter_hold : waiter, NULL);
	if (mode == 3) {
		/* "wait releases the given mutex": the main thread never blocks on the mutex here; once all W waiters have registered (counter read
		 * without the mutex) they are inside wait or about to be, so polling trylock must get the mutex within the bound */
		int t, got = 0;
		scen = "wait-releases-mutex-for-trylock";
		for (t = 0; t < 200000 && __atomic_load_n(&registered, __ATOMIC_SEQ_CST) < W; t++) usleep(100);
		for (t = 0; t < 200000 && !(got = p_mutex_trylock(mu)); t++) usleep(t < 1000 ? 10 : 100);
		if (!got) { viol("mutex-not-released-by-wait", "%d threads are blocked in p_cond_variable_wait but p_mutex_trylock on their mutex never succeeded in 20 s", W); p_mutex_lock(mu); }
		go = 1; p_cond_variable_broadcast(cv_ne); p_mutex_unlock(mu);
		if (!wait_arrivals(W, 2000) && !wait_arrivals(W, 18000)) viol("broadcast-woke-too-few", "one broadcast with %d registered waiters woke only %d", W, arrived);
		st_waiters_woken += arrived; st_trylock_probes++;
	} else
	wait_registered(W);                 /* registered under the mutex right before waiting: all W are inside wait (atomic release-and-wait) */
	if (mode == 3) {
	} else if (mode == 0) {
		scen = "broadcast-wakes-all";
		p_mutex_lock(mu); go = 1; if (W & 1) { p_mutex_unlock(mu); p_cond_variable_broadcast(cv_ne); } else { p_cond_variable_broadcast(cv_ne); p_mutex_unlock(mu); }     /* odd W: the (single) broadcast is issued after unlocking, which is legal */
		if (!wait_arrivals(W, 2000) && !wait_arrivals(W, 18000)) viol("broadcast-woke-too-few", "one broadcast with %d registered waiters woke only %d", W, arrived);
		st_waiters_woken += arrived;
	} else if (mode == 1) {
		scen = "signal-wakes-one";
		p_mutex_lock(mu); tokens = 1; p_cond_variable_signal(cv_ne); p_mutex_unlock(mu);
		if (!wait_arrivals(1, 2000) && !wait_arrivals(1, 18000)) viol("signal-woke-none", "one signal with %d registered waiters woke nobody", W);
		st_waiters_woken += arrived ? 1 : 0;
	} else {
		scen = "wait-returns-with-mutex";
		p_mutex_lock(mu); go = 1; p_cond_variable_signal(cv_ne); p_mutex_unlock(mu);
		{ int t; for (t = 0; t < 200000 && !__atomic_load_n(&awake_flag, __ATOMIC_SEQ_CST); t++) usleep(100);
		  if (!awake_flag) viol("signal-woke-none", "the single waiter did not wake after a signal");
		  else { if (p_mutex_trylock(mu)) { viol("mutex-not-held", "p_cond_variable_wait returned without re-acquiring the mutex (trylock by another thread succeeded while the woken waiter was inside)"); p_mutex_unlock(mu); } st_waiters_woken++; } }
		__atomic_store_n(&release_flag, 1, __ATOMIC_SEQ_CST);
	}
	/* rescue: let everybody leave whatever happened */
	for (i = 0; i < 200 && mode != 2; i++) { p_mutex_lock(mu); go = 1; p_cond_variable_broadcast(cv_ne); p_mutex_unlock(mu); if (__atomic_load_n(&arrived, __ATOMIC_SEQ_CST) >= W) break; usleep(1000); }
	for (i = 0; i < W; i++) pthread_join(th[i], NULL);
	st_wake_cases++;
	p_cond_variable_free(cv_ne); p_mutex_free(mu);
}

int main(int argc, char **argv) {
	vh_rng r; double t0 = vh_now(); long long runs = vh_argi(argc, argv, "--runs", 30), items = vh_argi(argc, argv, "--items", 2000), wakes = vh_argi(argc, argv, "--wakes", 100), i; int maxt = (int)vh_argi(argc, argv, "--maxt", 8), maxw = (int)vh_argi(argc, argv, "--maxw", 16);
	pthread_t wd;
	vh_seed(&r, (uint64_t)vh_argi(argc, argv, "--seed", 1) * 0x9E3779B97F4A7C15ULL);
	wd_limit_s = (int)vh_argi(argc, argv, "--stall", 45);
	vh_max_viol = 3;      /* a failing wake scenario costs 20 s of waiting: three witnesses are enough, keep the run short */
	p_libsys_init();
	pthread_create(&wd, NULL, wd_fn, NULL);
	for (i = 0; i < wakes && vh_nviol < vh_max_viol; i++) { int W = 1 + (int)vh_below(&r, (uint64_t)maxw); if (i % 5 == 4) run_two_mutexes(W > MAXT ? MAXT : W); else run_wake(W, (int)(i % 4)); }
	run_batches();
	run_new_race(400);
	for (i = 0; i < 4 && vh_nviol < vh_max_viol; i++) run_storm(2 + (int)vh_below(&r, 5), wakes * 2);
	for (i = 0; i < runs && vh_nviol < vh_max_viol; i++) {
		int P = 1 + (int)vh_below(&r, (uint64_t)maxt / 2 + 1), C = 1 + (int)vh_below(&r, (uint64_t)maxt / 2 + 1), capc = 1 + (int)vh_below(&r, 4);
		run_buffer(P, C, items / P + 1, capc, (int)(i & 1), (int)((i >> 1) & 1), (int)(i % 5 == 4));
	}
	p_libsys_shutdown();
	printf("{\"ev\":\"stats\",\"buffer_runs\":%lld,\"items\":%lld,\"waits\":%lld,\"returns_with_false_predicate\":%lld,\"wake_cases\":%lld,\"concurrent_signal_rounds\":%lld,\"waiters_woken\":%lld,\"trylock_probes_during_wait\":%lld,\"condvar_reused_with_second_mutex\":%lld,\"signal_batches\":%lld,\"concurrent_constructor_rounds\":%lld,\"events_in_batches\":%lld,\"buffer_runs_with_trylock_producers\":%lld,\"trylock_acquisitions\":%lld,\"viol\":%d,\"wall\":%.2f}\n",
	       st_runs, st_items, st_waits, st_spurious_returns, st_wake_cases, st_storm_rounds, st_waiters_woken, st_trylock_probes, st_repair_cases, st_batches, st_new_races, st_batch_events, st_try_runs, st_try_acquisitions, vh_nviol, vh_now() - t0);
	return 0;
}

/* c02_rwlock: PRWLock monitors (C02).
 *   --mode sched   controlled scheduler (general model): the six pthread mutex/cond entry points used by plibsys are
 *                  wrapped (-Wl,--wrap) by a user-level implementation in which exactly one worker runs at a time; every
 *                  wrapped call is a scheduling point where a seeded PRNG picks the next enabled worker; spurious
 *                  condition wake-ups are injected; deadlock / lost wake-up = no enabled worker while a script is unfinished.
 *   --mode stress  OS-scheduled threads, random reader/writer/try rounds, shadow counters, progress watchdog;
 *                  the wrappers (when linked) add random yields and spurious wake-ups.
 * Shadow counters are updated after the lock call returned and before the unlock call starts. */
#include <plibsys.h>
#include <pthread.h>
#include <semaphore.h>
#include <sched.h>
#include <errno.h>
#include "vh.h"

static const char *scen = "-";
static void viol(const char *symptom, const char *fmt, ...) __attribute__((format(printf, 2, 3)));
static void viol(const char *symptom, const char *fmt, ...) {
	char key[200], buf[3000]; va_list ap;
	va_start(ap, fmt); vsnprintf(buf, sizeof buf, fmt, ap); va_end(ap);
	snprintf(key, sizeof key, "model=%s mode=%s symptom=%s", VH_MODEL, scen, symptom);
	if (vh_nviol < vh_max_viol) vh_viol("C02", key, "%s", buf);
}

/* =============================================================== controlled scheduler */
#define MAXW 6
enum { S_IDLE, S_RUN, S_BLK_MUTEX, S_WAIT_COND, S_WAIT_FLAG, S_DONE };
typedef struct { int state; void *mutex; void *cond; int flag; sem_t go; int id; int in_try; } Wk;
static Wk wk[MAXW]; static int nwk; static __thread int my_id = -1; static int sched_on;
static struct { void *addr; int owner; } mtab[16]; static int nm;
static vh_rng srng; static int spurious_pct, sticky_pct; static sem_t ctl_sem;
static int flags_[4];
static long long st_sched_points, st_cond_waits, st_spurious, st_signals, st_broadcasts, st_max_readers;
static unsigned char trace[4096]; static int trace_n; static int cur_running;
static int shR, shW;      /* shadow holders (only the running worker touches them) */

static int *mowner(void *m) { int i; for (i = 0; i < nm; i++) if (mtab[i].addr == m) return &mtab[i].owner; if (nm >= 16) VH_DIE("mutex table"); mtab[nm].addr = m; mtab[nm].owner = -1; return &mtab[nm++].owner; }
static int enabled(int i) { Wk *w = &wk[i]; if (w->state == S_RUN) return 1; if (w->state == S_BLK_MUTEX) return *mowner(w->mutex) == -1; if (w->state == S_WAIT_FLAG) return flags_[w->flag]; return 0; }

static void dump_states(char *out, size_t cap) {
	int i; size_t o = 0; static const char *sn[] = { "idle", "run", "blocked-on-mutex", "waiting-on-condvar", "await-flag", "done" };
	for (i = 0; i < nwk; i++) o += (size_t)snprintf(out + o, cap - o, "w%d:%s ", i, sn[wk[i].state]);
	o += (size_t)snprintf(out + o, cap - o, "| shadow R=%d W=%d | trace:", shR, shW);
	for (i = 0; i < trace_n && o + 4 < cap; i++) o += (size_t)snprintf(out + o, cap - o, "%d", trace[i]);
}

/* called by the running worker at a scheduling point; returns when this worker is scheduled again */
static void reschedule(void) {
	int cand[MAXW], nc = 0, i, next, me = my_id, i_am_done = wk[my_id].state == S_DONE;
	st_sched_points++;
	/* spurious wake-up injection */
	if (spurious_pct && (int)vh_below(&srng, 100) < spurious_pct) {
		int w[MAXW], n = 0; for (i = 0; i < nwk; i++) if (wk[i].state == S_WAIT_COND) w[n++] = i;
		if (n) { i = w[vh_below(&srng, (uint64_t)n)]; wk[i].state = S_BLK_MUTEX; st_spurious++; }
	}
	for (i = 0; i < nwk; i++) if (enabled(i)) cand[nc++] = i;
	if (nc == 0) {
		int unfinished = 0; for (i = 0; i < nwk; i++) if (wk[i].state != S_DONE) unfinished++;
		if (unfinished) { char d[2600]; dump_states(d, sizeof d); viol("deadlock-or-lost-wakeup", "no worker can proceed but %d scripts are unfinished: %s", unfinished, d); fflush(stdout); _exit(0); }
		if (!i_am_done) VH_DIE("scheduler: inconsistent end");
		sem_post(&ctl_sem);                     /* history complete: nothing below may touch shared state */
		return;
	}
	if (wk[me].state == S_RUN && sticky_pct && (int)vh_below(&srng, 100) < sticky_pct) next = me;
	else next = cand[vh_below(&srng, (uint64_t)nc)];
	if (wk[next].state == S_BLK_MUTEX) { *mowner(wk[next].mutex) = next; wk[next].state = S_RUN; }
	else if (wk[next].state == S_WAIT_FLAG) wk[next].state = S_RUN;
	if (trace_n < (int)sizeof trace) trace[trace_n++] = (unsigned char)next;
	cur_running = next;
	if (next != me) { sem_post(&wk[next].go); if (!i_am_done) sem_wait(&wk[me].go); }
}

int __real_pthread_mutex_lock(pthread_mutex_t *); int __real_pthread_mutex_trylock(pthread_mutex_t *); int __real_pthread_mutex_unlock(pthread_mutex_t *);
int __real_pthread_cond_wait(pthread_cond_t *, pthread_mutex_t *); int __real_pthread_cond_signal(pthread_cond_t *); int __real_pthread_cond_broadcast(pthread_cond_t *);

/* stress-mode perturbation */
static int perturb; static __thread uint64_t prng_t;
static uint64_t tnext(void) { if (!prng_t) prng_t = (uint64_t)(uintptr_t)&prng_t * 0x9E3779B97F4A7C15ULL + 1; prng_t ^= prng_t << 13; prng_t ^= prng_t >> 7; prng_t ^= prng_t << 17; return prng_t; }
static long long st_yields, st_stress_spurious;
static void maybe_yield(void) { if (perturb && tnext() % 100 < (uint64_t)perturb) { __atomic_add_fetch(&st_yields, 1, __ATOMIC_RELAXED); if (tnext() % 8 == 0) { struct timespec ts = { 0, (long)(tnext() % 20000) }; nanosleep(&ts, NULL); } else sched_yield(); } }

int __wrap_pthread_mutex_lock(pthread_mutex_t *m) {
	if (sched_on && my_id >= 0) { int *o; reschedule(); o = mowner(m); if (*o == -1) { *o = my_id; return 0; } if (*o == my_id) VH_DIE("recursive lock"); wk[my_id].state = S_BLK_MUTEX; wk[my_id].mutex = m; reschedule(); return 0; }
	{ int r; maybe_yield(); r = __real_pthread_mutex_lock(m); maybe_yield(); return r; }
}
int __wrap_pthread_mutex_trylock(pthread_mutex_t *m) {
	if (sched_on && my_id >= 0) { int *o; reschedule(); o = mowner(m); if (*o == -1) { *o = my_id; return 0; } return EBUSY; }
	maybe_yield(); return __real_pthread_mutex_trylock(m);
}
int __wrap_pthread_mutex_unlock(pthread_mutex_t *m) {
	if (sched_on && my_id >= 0) { int *o = mowner(m); if (*o != my_id) { viol("unlock-not-owner", "plibsys unlocked a mutex it does not hold"); } *o = -1; reschedule(); return 0; }
	{ int r = __real_pthread_mutex_unlock(m); maybe_yield(); return r; }
}
int __wrap_pthread_cond_wait(pthread_cond_t *c, pthread_mutex_t *m) {
	if (sched_on && my_id >= 0) {
		int *o = mowner(m);
		if (wk[my_id].in_try) viol("try-blocks", "a trylock call went to sleep on a condition variable");
		if (*o != my_id) viol("wait-without-mutex", "p_cond_variable_wait called without holding the mutex");
		st_cond_waits++; *o = -1; wk[my_id].state = S_WAIT_COND; wk[my_id].cond = c; wk[my_id].mutex = m;
		reschedule();
		return 0;
	}
	if (perturb && tnext() % 100 < 8) { __atomic_add_fetch(&st_stress_spurious, 1, __ATOMIC_RELAXED); __real_pthread_mutex_unlock(m); sched_yield(); __real_pthread_mutex_lock(m); return 0; }   /* spurious return */
	return __real_pthread_cond_wait(c, m);
}
int __wrap_pthread_cond_signal(pthread_cond_t *c) {
	if (sched_on && my_id >= 0) { int w[MAXW], n = 0, i; st_signals++; for (i = 0; i < nwk; i++) if (wk[i].state == S_WAIT_COND && wk[i].cond == c) w[n++] = i; if (n) { i = w[vh_below(&srng, (uint64_t)n)]; wk[i].state = S_BLK_MUTEX; } reschedule(); return 0; }
	{ int r; maybe_yield(); r = __real_pthread_cond_signal(c); return r; }
}
int __wrap_pthread_cond_broadcast(pthread_cond_t *c) {
	if (sched_on && my_id >= 0) { int i; st_broadcasts++; for (i = 0; i < nwk; i++) if (wk[i].state == S_WAIT_COND && wk[i].cond == c) wk[i].state = S_BLK_MUTEX; reschedule(); return 0; }
	{ int r; maybe_yield(); r = __real_pthread_cond_broadcast(c); return r; }
}

/* ---- scripts ---- */
enum { O_RL, O_WL, O_TR, O_TW, O_SETF, O_AWAIT, O_END };
typedef struct { int op[12]; int arg[12]; int n; } Script;
static Script scripts[MAXW]; static PRWLock *rw;
static long long st_grants_r, st_grants_w, st_try_true, st_try_false, st_histories;
static uint64_t *tset, *sset; static size_t tcap = 1 << 20, tcnt, scap = 1 << 12, scnt;
static void set_add(uint64_t **set, size_t cap, size_t *cnt, uint64_t h) { size_t i; if (!h) h = 1; if (!*set) *set = calloc(cap, 8); if (*cnt * 2 > cap) return; i = h & (cap - 1); while ((*set)[i]) { if ((*set)[i] == h) return; i = (i + 1) & (cap - 1); } (*set)[i] = h; (*cnt)++; }
static void note_state(void) {
	int i, wc = 0, bm = 0; uint64_t h;
	for (i = 0; i < nwk; i++) { if (wk[i].state == S_WAIT_COND) wc++; if (wk[i].state == S_BLK_MUTEX) bm++; }
	h = ((uint64_t)shR << 24) | ((uint64_t)shW << 16) | ((uint64_t)wc << 8) | (uint64_t)bm | 0x100000000ULL;
	set_add(&sset, scap, &scnt, h);
	if (shR > st_max_readers) st_max_readers = shR;
}
static void hold_r(void) { if (shW) viol("reader-with-writer", "a reader was granted the lock while a writer holds it"); shR++; st_grants_r++; note_state(); }
static void hold_w(void) { if (shW || shR) viol(shW ? "two-writers" : "writer-with-readers", "a writer was granted the lock while R=%d W=%d hold it", shR, shW); shW++; st_grants_w++; note_state(); }

static void *worker_fn(void *a) {
	Wk *w = a; my_id = w->id;
	for (;;) {
		Script *s; int i;
		sem_wait(&w->go);                       /* start of a history: scheduled for the first time */
		s = &scripts[w->id];
		for (i = 0; i < s->n; i++) {
			switch (s->op[i]) {
			case O_RL: if (!p_rwlock_reader_lock(rw)) viol("lock-call-failed", "reader_lock returned FALSE"); hold_r(); reschedule(); shR--; if (!p_rwlock_reader_unlock(rw)) viol("lock-call-failed", "reader_unlock returned FALSE"); break;
			case O_WL: if (!p_rwlock_writer_lock(rw)) viol("lock-call-failed", "writer_lock returned FALSE"); hold_w(); reschedule(); shW--; if (!p_rwlock_writer_unlock(rw)) viol("lock-call-failed", "writer_unlock returned FALSE"); break;
			case O_TR: { pboolean ok; w->in_try = 1; ok = p_rwlock_reader_trylock(rw); w->in_try = 0; if (ok) { st_try_true++; hold_r(); reschedule(); shR--; p_rwlock_reader_unlock(rw); } else st_try_false++; break; }
			case O_TW: { pboolean ok; w->in_try = 1; ok = p_rwlock_writer_trylock(rw); w->in_try = 0; if (ok) { st_try_true++; hold_w(); reschedule(); shW--; p_rwlock_writer_unlock(rw); } else st_try_false++; break; }
			case 10: /* RL held across a flag hand-off: readers must be able to share */
				if (!p_rwlock_reader_lock(rw)) viol("lock-call-failed", "reader_lock returned FALSE"); hold_r();
				if (s->arg[i] == 0) { wk[w->id].state = S_WAIT_FLAG; wk[w->id].flag = 0; reschedule(); } else { flags_[0] = 1; reschedule(); }
				shR--; p_rwlock_reader_unlock(rw); break;
			}
		}
		w->state = S_DONE;
		reschedule();
	}
	return NULL;
}

static void gen_scripts(vh_rng *r, int W) {
	int i, j;
	if (vh_below(r, 12) == 0 && W >= 2) {        /* readers-share scenario: A holds until B has acquired too */
		for (i = 0; i < W; i++) { scripts[i].n = 1; scripts[i].op[0] = i < 2 ? 10 : (vh_chance(r, 50) ? O_RL : O_TR);   /* readers only: a waiting writer may legitimately hold back new readers */ scripts[i].arg[0] = i; }
		return;
	}
	for (i = 0; i < W; i++) { scripts[i].n = 1 + (int)vh_below(r, 4); for (j = 0; j < scripts[i].n; j++) { int k = (int)vh_below(r, 10); scripts[i].op[j] = k < 4 ? O_RL : k < 7 ? O_WL : k < 8 ? O_TR : O_TW; scripts[i].arg[j] = 0; } }
}

static void run_sched(vh_rng *r, long long histories) {
	pthread_t th[MAXW]; int i; long long h;
	scen = "controlled-scheduler";
	sem_init(&ctl_sem, 0, 0);
	for (i = 0; i < MAXW; i++) { wk[i].id = i; wk[i].state = S_IDLE; sem_init(&wk[i].go, 0, 0); pthread_create(&th[i], NULL, worker_fn, &wk[i]); }
	for (h = 0; h < histories && vh_nviol < vh_max_viol; h++) {
		int W = 2 + (int)vh_below(r, 3), first; uint64_t th_ = 1469598103934665603ULL;
		rw = p_rwlock_new(); if (!rw) VH_DIE("rwlock new");
		nwk = W; nm = 0; trace_n = 0; shR = shW = 0; flags_[0] = 0;
		vh_seed(&srng, vh_next(r)); spurious_pct = (h & 1) ? 5 : 0; sticky_pct = (h & 2) ? 60 : 0;
		gen_scripts(r, W);
		for (i = 0; i < W; i++) wk[i].state = S_RUN;
		for (i = W; i < MAXW; i++) wk[i].state = S_DONE;
		sched_on = 1;
		first = (int)vh_below(&srng, (uint64_t)W); trace[trace_n++] = (unsigned char)first; cur_running = first;
		/* all workers are parked on their semaphore; only `first` is released, the others wait to be scheduled */
		sem_post(&wk[first].go);
		sem_wait(&ctl_sem);
		sched_on = 0;
		if (shR || shW) viol("shadow-nonzero", "holders left at the end of a history R=%d W=%d", shR, shW);
		for (i = 0; i < trace_n; i++) th_ = (th_ ^ trace[i]) * 1099511628211ULL;
		for (i = 0; i < W; i++) { int j; for (j = 0; j < scripts[i].n; j++) th_ = (th_ ^ (uint64_t)(scripts[i].op[j] + 16 * i)) * 1099511628211ULL; }
		set_add(&tset, tcap, &tcnt, th_);
		st_histories++;
		if (h == 0) { char d[800]; size_t o = 0; int j; for (i = 0; i < W; i++) { o += (size_t)snprintf(d + o, sizeof d - o, "w%d:", i); for (j = 0; j < scripts[i].n; j++) o += (size_t)snprintf(d + o, sizeof d - o, "%s", scripts[i].op[j] == O_RL ? "R" : scripts[i].op[j] == O_WL ? "W" : scripts[i].op[j] == O_TR ? "r?" : scripts[i].op[j] == O_TW ? "w?" : "Rshare"); o += (size_t)snprintf(d + o, sizeof d - o, " "); }
			o += (size_t)snprintf(d + o, sizeof d - o, "schedule:"); for (i = 0; i < trace_n && i < 120; i++) o += (size_t)snprintf(d + o, sizeof d - o, "%d", trace[i]); printf("{\"ev\":\"sample\",\"history\":\"%s\"}\n", d); }
		p_rwlock_free(rw);
	}
	/* worker threads stay parked; process exit reaps them */
}

/* =============================================================== OS-scheduled stress */
#define MAXT 64
static long long st_read_holds_max, st_read_holds_refused;
static PRWLock *srw; static volatile int aR, aW; static long long s_rounds; static volatile long long progress;
#ifdef HB_MODE
static unsigned long long payload[8];
#else
static volatile unsigned long long payload[8];
#endif
static long long bad_rw[MAXT], bad_ww[MAXT], bad_payload[MAXT], s_grants[MAXT], s_try_t[MAXT], s_try_f[MAXT]; static volatile int max_r;
static int wd_limit_s = 45;
static void *wd_fn(void *a) { long long last = -1; int idle = 0; (void)a; for (;;) { long long p; sleep(1); p = __atomic_load_n(&progress, __ATOMIC_RELAXED); if (p != last) { last = p; idle = 0; } else if (++idle >= wd_limit_s) { viol("no-progress", "no lock granted for %d s although every holder releases: lost wake-up or deadlock", wd_limit_s); fflush(stdout); _exit(0); } } return NULL; }

static void rd_section(int id) {
	int r, i; unsigned long long v0;
	r = __atomic_add_fetch(&aR, 1, __ATOMIC_RELAXED); if (__atomic_load_n(&aW, __ATOMIC_RELAXED)) bad_rw[id]++;
#ifndef HB_MODE
	if (r > max_r) max_r = r;
#else
	(void)r;
#endif
	v0 = payload[0]; for (i = 1; i < 8; i++) if (payload[i] != v0 + (unsigned long long)i) { bad_payload[id]++; break; }
	if (tnext() % 16 == 0) sched_yield();
	__atomic_sub_fetch(&aR, 1, __ATOMIC_RELAXED);
}
static void wr_section(int id) {
	int i; unsigned long long v;
	if (__atomic_add_fetch(&aW, 1, __ATOMIC_RELAXED) != 1) bad_ww[id]++; if (__atomic_load_n(&aR, __ATOMIC_RELAXED)) bad_rw[id]++;
	v = payload[0] + 1000003ULL; for (i = 0; i < 8; i++) payload[i] = v + (unsigned long long)i;
	if (tnext() % 16 == 0) sched_yield();
	__atomic_sub_fetch(&aW, 1, __ATOMIC_RELAXED);
}
static void *stress_fn(void *a) {
	int id = (int)(intptr_t)a; long long i;
	for (i = 0; i < s_rounds; i++) {
		int k = (int)(tnext() % 10);
		if (k < 5) { if (p_rwlock_reader_lock(srw)) { rd_section(id); p_rwlock_reader_unlock(srw); s_grants[id]++; } }
		else if (k < 7) { if (p_rwlock_writer_lock(srw)) { wr_section(id); p_rwlock_writer_unlock(srw); s_grants[id]++; } }
		else if (k < 9) { if (p_rwlock_reader_trylock(srw)) { rd_section(id); p_rwlock_reader_unlock(srw); s_try_t[id]++; } else s_try_f[id]++; }
		else { if (p_rwlock_writer_trylock(srw)) { wr_section(id); p_rwlock_writer_unlock(srw); s_try_t[id]++; } else s_try_f[id]++; }
		if ((i & 31) == 0) __atomic_add_fetch(&progress, 1, __ATOMIC_RELAXED);
	}
	return NULL;
}
static long long st_stress_grants, st_stress_try_t, st_stress_try_f, st_stress_runs; static int st_stress_maxr;
static void run_stress(int T, long long rounds) {
	pthread_t th[MAXT]; int i;
	scen = "stress"; srw = p_rwlock_new(); if (!srw) VH_DIE("rwlock"); s_rounds = rounds; aR = aW = 0; max_r = 0;
	for (i = 0; i < 8; i++) payload[i] = (unsigned long long)i;
	for (i = 0; i < T; i++) { bad_rw[i] = bad_ww[i] = bad_payload[i] = s_grants[i] = s_try_t[i] = s_try_f[i] = 0; pthread_create(&th[i], NULL, stress_fn, (void *)(intptr_t)i); }
	for (i = 0; i < T; i++) pthread_join(th[i], NULL);
	for (i = 0; i < T; i++) {
		if (bad_rw[i]) viol("reader-with-writer", "thread %d saw readers and a writer inside together %lld times (T=%d)", i, bad_rw[i], T);
		if (bad_ww[i]) viol("two-writers", "thread %d saw two writers inside %lld times", i, bad_ww[i]);
		if (bad_payload[i]) viol("torn-record", "a reader saw a half-written record %lld times", bad_payload[i]);
		st_stress_grants += s_grants[i]; st_stress_try_t += s_try_t[i]; st_stress_try_f += s_try_f[i];
	}
	if (max_r > st_stress_maxr) st_stress_maxr = max_r;
	/* readers can share: A holds, B must be able to acquire while A holds (ack handshake) */
	{ sem_t a_in, b_in; pthread_t tb; extern void *share_b(void *); static sem_t *sems[2]; sem_init(&a_in, 0, 0); sem_init(&b_in, 0, 0); sems[0] = &a_in; sems[1] = &b_in;
	  scen = "readers-share"; p_rwlock_reader_lock(srw); pthread_create(&tb, NULL, share_b, sems); sem_wait(&b_in); p_rwlock_reader_unlock(srw); pthread_join(tb, NULL); __atomic_add_fetch(&progress, 1, __ATOMIC_RELAXED); }
	/* try* never block and are FALSE against a writer */
	{ scen = "try-while-writer-holds"; p_rwlock_writer_lock(srw); { extern void *try_probe(void *); pthread_t tp; void *res; pthread_create(&tp, NULL, try_probe, NULL); pthread_join(tp, &res); if (res) viol("try-true-while-writer", "a trylock returned TRUE while another thread held the write lock"); } p_rwlock_writer_unlock(srw); __atomic_add_fetch(&progress, 1, __ATOMIC_RELAXED); }
	/* "any number of readers": many read holds at the same time (taken by one thread, shared mode never blocks against readers).  A lock call may
	 * refuse (return FALSE) at an implementation limit, but the lock must stay consistent: exclusive against writers while held, free afterwards. */
	{ static const long hold_n[] = { 1000, 32767, 32768, 33100 }; int hi;
	  for (hi = 0; hi < 4 && vh_nviol < vh_max_viol; hi++) {
		long want = hold_n[hi], got = 0, i; pthread_t tp; void *res;
		scen = "many-simultaneous-read-holds";
		for (i = 0; i < want; i++) { if (!p_rwlock_reader_lock(srw)) break; got++; if ((i & 1023) == 0) __atomic_add_fetch(&progress, 1, __ATOMIC_RELAXED); }
		st_read_holds_max = got > st_read_holds_max ? got : st_read_holds_max; if (got < want) st_read_holds_refused++;
		{ extern void *wtry_probe(void *); pthread_create(&tp, NULL, wtry_probe, NULL); pthread_join(tp, &res); if (res) viol("writer-with-readers", "writer trylock returned TRUE while %ld read holds were outstanding", got); }
		for (i = 0; i < got; i++) { if (!p_rwlock_reader_unlock(srw)) { viol("unlock-failed", "reader unlock %ld of %ld returned FALSE", i, got); break; } if ((i & 1023) == 0) __atomic_add_fetch(&progress, 1, __ATOMIC_RELAXED); }
		if (vh_nviol) break;
		if (!p_rwlock_writer_trylock(srw)) viol("not-free-after-readers-left", "after %ld simultaneous read holds were all released the lock is not grantable to a writer", got); else p_rwlock_writer_unlock(srw);
		if (!vh_nviol) { if (!p_rwlock_reader_trylock(srw)) viol("not-free-after-readers-left", "after %ld simultaneous read holds were all released the lock is not grantable to a reader", got); else p_rwlock_reader_unlock(srw); }
		__atomic_add_fetch(&progress, 1, __ATOMIC_RELAXED);
	  } }
	if (!vh_nviol) p_rwlock_free(srw);
	st_stress_runs++;
}
void *wtry_probe(void *a) { long bad = 0; (void)a; if (p_rwlock_writer_trylock(srw)) { bad = 1; p_rwlock_writer_unlock(srw); } return (void *)bad; }
void *share_b(void *a) { sem_t **s = a; p_rwlock_reader_lock(srw); sem_post(s[1]); p_rwlock_reader_unlock(srw); return NULL; }
void *try_probe(void *a) { long bad = 0; (void)a; if (p_rwlock_reader_trylock(srw)) { bad = 1; p_rwlock_reader_unlock(srw); } if (p_rwlock_writer_trylock(srw)) { bad = 1; p_rwlock_writer_unlock(srw); } return (void *)bad; }

/* --mode holds: read holds taken with reader_trylock until the implementation refuses (or --max is reached).  However many were granted,
 * they exclude writers until the last one is released; a TRUE that registered no reader would let a writer in too early. */
static long long st_holds_granted, st_holds_refused_at;
static void run_holds(long long max) {
	long long got = 0, i; PRWLock *l = p_rwlock_new();
	scen = "read-holds-up-to-the-limit";
	if (!l) VH_DIE("rwlock new");
	while (got < max) { if (!p_rwlock_reader_trylock(l)) break; got++; if ((got & 0xFFFFF) == 0) __atomic_add_fetch(&progress, 1, __ATOMIC_RELAXED); }
	st_holds_granted = got; st_holds_refused_at = got < max ? got : -1;
	if (p_rwlock_writer_trylock(l)) { viol("writer-with-readers", "writer trylock returned TRUE while %lld read holds were outstanding", got); p_rwlock_writer_unlock(l); }
	for (i = 0; i + 1 < got; i++) { if (!p_rwlock_reader_unlock(l)) { viol("unlock-failed", "reader unlock %lld of %lld returned FALSE", i, got); break; } if ((i & 0xFFFFF) == 0) __atomic_add_fetch(&progress, 1, __ATOMIC_RELAXED); }
	if (!vh_nviol && got > 0) {
		if (p_rwlock_writer_trylock(l)) { viol("writer-with-readers", "after %lld read holds were granted and all but one released, a writer trylock returned TRUE (a granted hold was not registered)", got); p_rwlock_writer_unlock(l); }
		if (!p_rwlock_reader_unlock(l)) viol("unlock-failed", "the last reader unlock returned FALSE");
	}
	if (!vh_nviol) { if (!p_rwlock_writer_trylock(l)) viol("not-free-after-readers-left", "after %lld read holds were all released the lock is not grantable to a writer", got); else p_rwlock_writer_unlock(l); }
	if (!vh_nviol) p_rwlock_free(l);
}

int main(int argc, char **argv) {
	vh_rng r; double t0 = vh_now(); const char *mode = vh_arg(argc, argv, "--mode", "sched"); long long n = vh_argi(argc, argv, "--n", 10000); pthread_t wd;
	vh_seed(&r, (uint64_t)vh_argi(argc, argv, "--seed", 1) * 0xA24BAED4963EE407ULL);
	p_libsys_init();
	if (!strcmp(mode, "sched")) run_sched(&r, n);
	else if (!strcmp(mode, "holds")) { wd_limit_s = 120; pthread_create(&wd, NULL, wd_fn, NULL); run_holds(n); }
	else {
		const char *tl = vh_arg(argc, argv, "--threads", "4,16"); char tmp[64], *tok, *sv;
		perturb = (int)vh_argi(argc, argv, "--perturb", 10); wd_limit_s = (int)vh_argi(argc, argv, "--stall", 45);
		pthread_create(&wd, NULL, wd_fn, NULL);
		snprintf(tmp, sizeof tmp, "%s", tl);
		for (tok = strtok_r(tmp, ",", &sv); tok; tok = strtok_r(NULL, ",", &sv)) { int T = atoi(tok); if (T >= 1 && T <= MAXT) run_stress(T, n / T + 50); }
	}
	printf("{\"ev\":\"stats\",\"mode\":\"%s\",\"model\":\"%s\",\"histories\":%lld,\"distinct_traces\":%zu,\"distinct_states\":%zu,\"sched_points\":%lld,\"cond_waits\":%lld,\"spurious_injected\":%lld,\"signals\":%lld,\"broadcasts\":%lld,"
	       "\"grants_r\":%lld,\"grants_w\":%lld,\"try_true\":%lld,\"try_false\":%lld,\"max_readers\":%lld,\"stress_runs\":%lld,\"stress_grants\":%lld,\"stress_try_true\":%lld,\"stress_try_false\":%lld,\"stress_max_readers\":%d,\"max_simultaneous_read_holds\":%lld,\"read_hold_series_refused_at_a_limit\":%lld,\"trylock_read_holds_granted\":%lld,\"trylock_read_holds_refused_at\":%lld,"
	       "\"stress_yields\":%lld,\"stress_spurious\":%lld,\"viol\":%d,\"wall\":%.2f}\n",
	       mode, VH_MODEL, st_histories, tcnt, scnt, st_sched_points, st_cond_waits, st_spurious, st_signals, st_broadcasts, st_grants_r, st_grants_w, st_try_true, st_try_false, st_max_readers,
	       st_stress_runs, st_stress_grants, st_stress_try_t, st_stress_try_f, st_stress_maxr, st_read_holds_max, st_read_holds_refused, st_holds_granted, st_holds_refused_at, st_yields, st_stress_spurious, vh_nviol, vh_now() - t0);
	fflush(stdout);
	_exit(0);
}

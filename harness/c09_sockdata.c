/* c09_sockdata: data integrity of PSocket streams and datagrams under injected EINTR / EAGAIN / short transfers /
 * spurious readiness (C09).  Linked with wrap_sys.c. */
#include <plibsys.h>
#include <pthread.h>
#include <poll.h>
#include <signal.h>
#include <sys/wait.h>
#include <errno.h>
#include "vh.h"
#include "wrap_sys.h"

int __real_poll(struct pollfd *, nfds_t, int);
static const char *scen = "-";
static void viol(const char *symptom, const char *fmt, ...) __attribute__((format(printf, 2, 3)));
static void viol(const char *symptom, const char *fmt, ...) {
	char key[240], buf[1200]; va_list ap;
	va_start(ap, fmt); vsnprintf(buf, sizeof buf, fmt, ap); va_end(ap);
	snprintf(key, sizeof key, "scenario=%s symptom=%s", scen, symptom);
	if (vh_nviol < vh_max_viol) vh_viol("C09", key, "%s", buf);
}

static volatile long long progress; static int wd_limit_s = 60;
static void *wd_fn(void *a) { long long last = -1; int idle = 0; (void)a; for (;;) { long long p; sleep(1); p = __atomic_load_n(&progress, __ATOMIC_RELAXED); if (p != last) { last = p; idle = 0; } else if (++idle >= wd_limit_s) { viol("no-progress", "no byte moved for %d s", wd_limit_s); fflush(stdout); _exit(0); } } return NULL; }

/* keyed generator: byte i of the stream */
static inline uint64_t gmix(uint64_t x) { x ^= x >> 33; x *= 0xff51afd7ed558ccdULL; x ^= x >> 33; x *= 0xc4ceb9fe1a85ec53ULL; x ^= x >> 33; return x; }
static void gen_fill(uint64_t key, uint64_t off, unsigned char *b, size_t n) { size_t i = 0; while (i < n) { uint64_t blk = (off + i) >> 3, v = gmix(key + blk * 0x9E3779B97F4A7C15ULL); unsigned sh = (unsigned)((off + i) & 7); while (sh < 8 && i < n) { b[i++] = (unsigned char)(v >> (8 * sh)); sh++; } } }
static int gen_check(uint64_t key, uint64_t off, const unsigned char *b, size_t n) { static __thread unsigned char tmp[65536]; size_t done = 0; while (done < n) { size_t c = n - done < sizeof tmp ? n - done : sizeof tmp; gen_fill(key, off + done, tmp, c); if (memcmp(tmp, b + done, c)) { size_t j; for (j = 0; j < c; j++) if (tmp[j] != b[done + j]) return (int)(done + j) + 1; } done += c; } return 0; }

static long long st_udp_empty;
static long long st_tcp_sessions, st_tcp_bytes, st_udp_sessions, st_udp_datagrams, st_udp_lost, st_udp_truncated, st_wouldblock_seen, st_peer_gone;
static long st_inj[W_N][4];

static void set_plans(vh_rng *r, int density, int kinds_mask) {
	static const int ids[] = { W_SEND, W_RECV, W_SENDTO, W_RECVFROM, W_POLL, W_CONNECT, W_ACCEPT }; int i;
	w_reset();
	for (i = 0; i < 7; i++) { int mode = vh_chance(r, 70) ? WM_RANDOM : WM_EVERY; long k = mode == WM_RANDOM ? density : 2 + (long)vh_below(r, 12); w_plan(ids[i], density ? mode : WM_OFF, k, 1, kinds_mask, vh_next(r)); }
}
static void collect_inj(void) { int i; for (i = 0; i < W_N; i++) { st_inj[i][0] += w_injected_kind(i, WK_EINTR); st_inj[i][1] += w_injected_kind(i, WK_EAGAIN); st_inj[i][2] += w_injected_kind(i, WK_SHORT); st_inj[i][3] += w_injected_kind(i, WK_SPURIOUS); } }

/* ---------------- TCP ---------------- */
typedef struct { PSocket *s; uint64_t key; long long total; int blocking; size_t maxchunk; int slow; volatile long long done; int failed; uint64_t seed; } Side;
static void wait_fd(PSocket *s, short ev) { struct pollfd p; p.fd = p_socket_get_fd(s); p.events = ev; p.revents = 0; __real_poll(&p, 1, 1000); }

static void *tcp_sender(void *a) {
	Side *sd = a; vh_rng r; unsigned char *buf = malloc(sd->maxchunk + 1); long long off = 0; vh_seed(&r, sd->seed);
	while (off < sd->total) {
		size_t want = vh_chance(&r, 30) ? 1 + (size_t)vh_below(&r, 64) : 1 + (size_t)vh_below(&r, sd->maxchunk); PError *err = NULL; pssize n;
		if (want > sd->maxchunk) want = sd->maxchunk;
		if ((long long)want > sd->total - off) want = (size_t)(sd->total - off);
		gen_fill(sd->key, (uint64_t)off, buf, want);
		n = p_socket_send(sd->s, (pchar *)buf, want, &err);
		if (n < 0) {
			int code = err ? p_error_get_code(err) : 0, nat = err ? p_error_get_native_code(err) : 0; p_error_free(err);
			if (!sd->blocking && code == P_ERROR_IO_WOULD_BLOCK) { __atomic_add_fetch(&st_wouldblock_seen, 1, __ATOMIC_RELAXED); wait_fd(sd->s, POLLOUT); continue; }
			{ char sym[96]; snprintf(sym, sizeof sym, "send-error code=%d errno=%d mode=%s", code, nat, sd->blocking ? "blocking" : "nonblocking"); viol(sym, "p_socket_send failed at stream offset %lld with both ends healthy: code %d native %d", off, code, nat); }
			sd->failed = 1; break;
		}
		if (n == 0 || (size_t)n > want) { viol("send-count", "p_socket_send(%zu) returned %zd", want, (ssize_t)n); sd->failed = 1; break; }
		off += n; sd->done = off; __atomic_add_fetch(&progress, 1, __ATOMIC_RELAXED);
	}
	free(buf);
	if (!sd->failed) p_socket_shutdown(sd->s, FALSE, TRUE, NULL);
	return NULL;
}
static void *tcp_receiver(void *a) {
	Side *sd = a; vh_rng r; unsigned char *buf = malloc(sd->maxchunk + 1); long long off = 0; vh_seed(&r, sd->seed ^ 0x5555);
	for (;;) {
		size_t want = vh_chance(&r, 30) ? 1 + (size_t)vh_below(&r, 64) : 1 + (size_t)vh_below(&r, sd->maxchunk); PError *err = NULL; pssize n; int bad;
		if (want > sd->maxchunk) want = sd->maxchunk;
		if (sd->slow && vh_chance(&r, 20)) usleep((useconds_t)vh_below(&r, 300));
		memset(buf + want, 0x7E, 1);
		n = p_socket_receive(sd->s, (pchar *)buf, want, &err);
		if (n < 0) {
			int code = err ? p_error_get_code(err) : 0, nat = err ? p_error_get_native_code(err) : 0; p_error_free(err);
			if (!sd->blocking && code == P_ERROR_IO_WOULD_BLOCK) { __atomic_add_fetch(&st_wouldblock_seen, 1, __ATOMIC_RELAXED); wait_fd(sd->s, POLLIN); continue; }
			{ char sym[96]; snprintf(sym, sizeof sym, "receive-error code=%d errno=%d mode=%s", code, nat, sd->blocking ? "blocking" : "nonblocking"); viol(sym, "p_socket_receive failed at stream offset %lld with both ends healthy: code %d native %d", off, code, nat); }
			sd->failed = 1; break;
		}
		if (n == 0) break;                                   /* EOF */
		if ((size_t)n > want || buf[want] != 0x7E) { viol("receive-overrun", "p_socket_receive(%zu) returned %zd / wrote past the buffer", want, (ssize_t)n); sd->failed = 1; break; }
		if ((bad = gen_check(sd->key, (uint64_t)off, buf, (size_t)n))) { viol("stream-corrupt", "received stream differs from the sent stream at offset %lld (loss, duplication, reorder or corruption)", off + bad - 1); sd->failed = 1; break; }
		off += n; sd->done = off; __atomic_add_fetch(&progress, 1, __ATOMIC_RELAXED);
	}
	free(buf);
	return NULL;
}

static void tcp_session(vh_rng *r, int v6, long long total, int blocking, size_t maxchunk, int smallbuf, int slow, int density, int kinds) {
	PSocketAddress *la = p_socket_address_new(v6 ? "::1" : "127.0.0.1", 0), *bound; PSocket *ls, *cl, *ac; PError *err = NULL; Side snd, rcv; pthread_t ts, tr; int recv_first = vh_chance(r, 50);
	scen = "tcp";
	ls = p_socket_new(v6 ? P_SOCKET_FAMILY_INET6 : P_SOCKET_FAMILY_INET, P_SOCKET_TYPE_STREAM, P_SOCKET_PROTOCOL_TCP, NULL);
	if (!ls || !la || !p_socket_bind(ls, la, TRUE, NULL) || !p_socket_listen(ls, NULL)) VH_DIE("listener");
	bound = p_socket_get_local_address(ls, NULL);
	cl = p_socket_new(v6 ? P_SOCKET_FAMILY_INET6 : P_SOCKET_FAMILY_INET, P_SOCKET_TYPE_STREAM, P_SOCKET_PROTOCOL_TCP, NULL);
	p_socket_set_timeout(ls, 20000); p_socket_set_timeout(cl, 20000);
	set_plans(r, density, kinds);
	if (!p_socket_connect(cl, bound, &err)) { char sym[96]; snprintf(sym, sizeof sym, "connect-error code=%d errno=%d", err ? p_error_get_code(err) : 0, err ? p_error_get_native_code(err) : 0); viol(sym, "blocking connect to a loopback listener failed under injection"); goto out; }
	ac = p_socket_accept(ls, &err);
	if (!ac) { char sym[96]; snprintf(sym, sizeof sym, "accept-error code=%d errno=%d", err ? p_error_get_code(err) : 0, err ? p_error_get_native_code(err) : 0); viol(sym, "blocking accept with an established peer failed under injection"); goto out2; }
	p_socket_set_timeout(ac, 20000);
	if (smallbuf) { p_socket_set_buffer_size(cl, P_SOCKET_DIRECTION_SND, 4096, NULL); p_socket_set_buffer_size(ac, P_SOCKET_DIRECTION_RCV, 4096, NULL); }
	if (!blocking) { p_socket_set_blocking(cl, FALSE); p_socket_set_blocking(ac, FALSE); }
	memset(&snd, 0, sizeof snd); memset(&rcv, 0, sizeof rcv);
	snd.s = cl; rcv.s = ac; snd.key = rcv.key = vh_next(r); snd.total = rcv.total = total; snd.blocking = rcv.blocking = blocking; snd.maxchunk = rcv.maxchunk = maxchunk; rcv.slow = slow; snd.seed = vh_next(r); rcv.seed = vh_next(r);
	if (vh_chance(r, 30)) rcv.maxchunk = 1 + vh_below(r, 256 * 1024);
	if (recv_first) { pthread_create(&tr, NULL, tcp_receiver, &rcv); usleep(500); pthread_create(&ts, NULL, tcp_sender, &snd); } else { pthread_create(&ts, NULL, tcp_sender, &snd); usleep(500); pthread_create(&tr, NULL, tcp_receiver, &rcv); }
	pthread_join(ts, NULL); pthread_join(tr, NULL);
	if (!snd.failed && !rcv.failed && rcv.done != snd.done) viol("stream-length", "sender reported %lld bytes sent, receiver got %lld before EOF", (long long)snd.done, (long long)rcv.done);
	st_tcp_sessions++; st_tcp_bytes += rcv.done;
	p_socket_free(ac);
out2:
	p_error_free(err); err = NULL;
out:
	collect_inj(); w_reset();
	p_error_free(err); p_socket_free(cl); p_socket_free(ls); p_socket_address_free(bound); p_socket_address_free(la);
}

/* ---------------- UDP ---------------- */
static void udp_session(vh_rng *r, int v6, int count, int density, int kinds) {
	PSocketAddress *la = p_socket_address_new(v6 ? "::1" : "127.0.0.1", 0), *ra, *sa_local, *la2 = p_socket_address_new(v6 ? "::1" : "127.0.0.1", 0); PSocket *rx, *tx; int i; size_t maxd = v6 ? 65527 : 65507; unsigned char *sb = malloc(maxd + 8), *rb = malloc(maxd + 32);      /* the receive buffer may be up to len + 10 <= maxd + 10 bytes plus 8 canary bytes */
	uint64_t key = vh_next(r);
	scen = "udp";
	rx = p_socket_new(v6 ? P_SOCKET_FAMILY_INET6 : P_SOCKET_FAMILY_INET, P_SOCKET_TYPE_DATAGRAM, P_SOCKET_PROTOCOL_UDP, NULL);
	tx = p_socket_new(v6 ? P_SOCKET_FAMILY_INET6 : P_SOCKET_FAMILY_INET, P_SOCKET_TYPE_DATAGRAM, P_SOCKET_PROTOCOL_UDP, NULL);
	if (!rx || !tx || !p_socket_bind(rx, la, FALSE, NULL) || !p_socket_bind(tx, la2, FALSE, NULL)) VH_DIE("udp sockets");
	p_socket_set_buffer_size(rx, P_SOCKET_DIRECTION_RCV, 1 << 20, NULL);
	ra = p_socket_get_local_address(rx, NULL); sa_local = p_socket_get_local_address(tx, NULL);
	p_socket_set_timeout(rx, 300); p_socket_set_timeout(tx, 5000);
	set_plans(r, density, kinds & ~WK_SHORT);
	for (i = 0; i < count && vh_nviol < vh_max_viol; i++) {
		size_t len = vh_chance(r, 10) ? maxd - vh_below(r, 3) : vh_chance(r, 6) ? 0 /* an empty datagram is a datagram */ : vh_chance(r, 40) ? 1 + vh_below(r, 64) : 1 + vh_below(r, maxd), blen = vh_chance(r, 30) ? 1 + vh_below(r, len + 10) : maxd; PError *err = NULL; pssize n; PSocketAddress *from = NULL; size_t exp;
		gen_fill(key + (uint64_t)i, 0, sb, len);
		n = p_socket_send_to(tx, ra, (pchar *)sb, len, &err);
		if (n != (pssize)len) { char sym[96]; snprintf(sym, sizeof sym, "send_to-error code=%d errno=%d", err ? p_error_get_code(err) : 0, err ? p_error_get_native_code(err) : 0); viol(sym, "blocking send_to of %zu bytes returned %zd", len, (ssize_t)n); p_error_free(err); break; }
		memset(rb, 0x7E, blen + 8);
		n = p_socket_receive_from(rx, &from, (pchar *)rb, blen, &err);
		if (n < 0) {
			int code = err ? p_error_get_code(err) : 0;
			if (code == P_ERROR_IO_TIMED_OUT) {     /* loss is allowed in general; but this receiver's queue was empty (1 MiB buffer) and the datagram went over loopback */
				st_udp_lost++; p_error_free(err);
				if (len == 0 && !w_injected(W_RECVFROM) && !w_injected(W_POLL)) { viol("empty-datagram-never-received", "an empty datagram sent over loopback to a socket with an empty queue was never returned by receive_from (300 ms)"); break; }
				continue; }
			{ char sym[96]; snprintf(sym, sizeof sym, "receive_from-error code=%d errno=%d", code, err ? p_error_get_native_code(err) : 0); viol(sym, "blocking receive_from failed"); } p_error_free(err); break;
		}
		exp = len < blen ? len : blen; if (exp < len) st_udp_truncated++;
		if ((size_t)n != exp) { viol("datagram-length", "datagram of %zu bytes received into %zu-byte buffer: returned %zd, expected %zu", len, blen, (ssize_t)n, exp); p_socket_address_free(from); break; }
		if (memcmp(rb, sb, exp)) { viol("datagram-corrupt", "received datagram is not the sent datagram cut to the buffer length"); p_socket_address_free(from); break; }
		if (rb[blen] != 0x7E) { viol("receive-overrun", "receive_from wrote past the buffer"); p_socket_address_free(from); break; }
		if (!from) viol("sender-address-missing", "receive_from did not report a sender address");
		else { pchar *t1 = p_socket_address_get_address(from), *t2 = p_socket_address_get_address(sa_local);
			if (p_socket_address_get_port(from) != p_socket_address_get_port(sa_local) || !t1 || !t2 || strcmp(t1, t2) || p_socket_address_get_family(from) != p_socket_address_get_family(sa_local)) viol("sender-address-wrong", "receive_from reported %s:%u, the sender is %s:%u", t1 ? t1 : "?", p_socket_address_get_port(from), t2 ? t2 : "?", p_socket_address_get_port(sa_local));
			p_free(t1); p_free(t2); p_socket_address_free(from); }
		st_udp_datagrams++; if (len == 0) st_udp_empty++; __atomic_add_fetch(&progress, 1, __ATOMIC_RELAXED);
	}
	collect_inj(); w_reset(); st_udp_sessions++;
	free(sb); free(rb); p_socket_free(rx); p_socket_free(tx); p_socket_address_free(la); p_socket_address_free(la2); p_socket_address_free(ra); p_socket_address_free(sa_local);
}

/* ---------------- peer gone: error, not a signal ---------------- */
static void peer_gone(int v6, int use_send_to, int user_resets_sigpipe) {
	pid_t pid; int status;
	scen = use_send_to ? "peer-gone-send_to" : user_resets_sigpipe ? "peer-gone-send-sigpipe-default" : "peer-gone-send";
	fflush(stdout);
	pid = fork();
	if (pid == 0) {
		PSocketAddress *la = p_socket_address_new(v6 ? "::1" : "127.0.0.1", 0), *bound; PSocket *ls, *cl, *ac; int i, got_err = 0; char buf[4096]; memset(buf, 'x', sizeof buf);
		ls = p_socket_new(v6 ? P_SOCKET_FAMILY_INET6 : P_SOCKET_FAMILY_INET, P_SOCKET_TYPE_STREAM, P_SOCKET_PROTOCOL_TCP, NULL);
		if (!ls || !p_socket_bind(ls, la, TRUE, NULL) || !p_socket_listen(ls, NULL)) _exit(3);
		bound = p_socket_get_local_address(ls, NULL);
		cl = p_socket_new(v6 ? P_SOCKET_FAMILY_INET6 : P_SOCKET_FAMILY_INET, P_SOCKET_TYPE_STREAM, P_SOCKET_PROTOCOL_TCP, NULL);
		p_socket_set_timeout(cl, 2000); p_socket_set_timeout(ls, 2000);
		if (!p_socket_connect(cl, bound, NULL)) _exit(3);
		ac = p_socket_accept(ls, NULL); if (!ac) _exit(3);
		p_socket_free(ac); p_socket_free(ls);            /* the peer is gone */
		if (user_resets_sigpipe) signal(SIGPIPE, SIG_DFL);   /* p_socket_send itself asks for no signal (MSG_NOSIGNAL) */
		usleep(20000);
		for (i = 0; i < 200; i++) {
			PError *err = NULL; pssize n = use_send_to ? p_socket_send_to(cl, bound, buf, sizeof buf, &err) : p_socket_send(cl, buf, sizeof buf, &err);
			if (n < 0) { got_err = 1; p_error_free(err); break; }
			usleep(1000);
		}
		_exit(got_err ? 0 : 4);
	}
	waitpid(pid, &status, 0); st_peer_gone++;
	if (WIFSIGNALED(status)) viol(WTERMSIG(status) == SIGPIPE ? "sigpipe-delivered" : "killed-by-signal", "writing to a peer that has gone killed the process with signal %d instead of returning an error", WTERMSIG(status));
	else if (WEXITSTATUS(status) == 4) viol("no-error-reported", "200 writes to a closed peer never reported an error");
	else if (WEXITSTATUS(status) == 3) { /* setup failed: not judged */ }
}

/* ---------------- half-close: request, shutdown(write), response ----------------
 * After p_socket_shutdown(s, FALSE, TRUE) only the sending direction is closed: the peer reads the request up to end-of-stream, answers,
 * and the answer must arrive complete and in order on the half-closed socket; likewise for the read-only shutdown in the other direction. */
static long long st_halfclose;
typedef struct { PSocket *ls; long long req, resp; uint64_t kreq, kresp; int bad; long long got_req; } HcSrv;
static void *hc_server(void *a) {
	HcSrv *h = a; PSocket *ac = p_socket_accept(h->ls, NULL); unsigned char buf[8192]; long long off = 0; pssize n;
	if (!ac) { h->bad = 1; return NULL; }
	p_socket_set_timeout(ac, 20000);
	for (;;) { n = p_socket_receive(ac, (pchar *)buf, sizeof buf, NULL); if (n <= 0) break; if (gen_check(h->kreq, (uint64_t)off, buf, (size_t)n)) h->bad = 2; off += n; __atomic_add_fetch(&progress, 1, __ATOMIC_RELAXED); }
	h->got_req = off; if (n < 0) h->bad = 3;
	for (off = 0; off < h->resp && !h->bad;) { size_t c = (size_t)(h->resp - off < (long long)sizeof buf ? h->resp - off : (long long)sizeof buf); gen_fill(h->kresp, (uint64_t)off, buf, c); n = p_socket_send(ac, (pchar *)buf, c, NULL); if (n <= 0) { h->bad = 4; break; } off += n; }
	p_socket_free(ac);
	return NULL;
}
static void half_close(vh_rng *r, int v6) {
	PSocketAddress *la = p_socket_address_new(v6 ? "::1" : "127.0.0.1", 0), *ba = NULL; PSocket *ls, *cl; HcSrv h; pthread_t th; unsigned char buf[8192]; long long off; pssize n; PError *err = NULL;
	scen = "half-close"; w_reset();
	memset(&h, 0, sizeof h); h.req = 1 + (long long)vh_below(r, 200000); h.resp = 1 + (long long)vh_below(r, 400000); h.kreq = vh_next(r); h.kresp = vh_next(r);
	ls = p_socket_new(v6 ? P_SOCKET_FAMILY_INET6 : P_SOCKET_FAMILY_INET, P_SOCKET_TYPE_STREAM, P_SOCKET_PROTOCOL_TCP, NULL);
	cl = p_socket_new(v6 ? P_SOCKET_FAMILY_INET6 : P_SOCKET_FAMILY_INET, P_SOCKET_TYPE_STREAM, P_SOCKET_PROTOCOL_TCP, NULL);
	if (!ls || !cl || !la || !p_socket_bind(ls, la, TRUE, NULL) || !p_socket_listen(ls, NULL) || !(ba = p_socket_get_local_address(ls, NULL))) { viol("setup", "half-close sockets"); return; }
	p_socket_set_timeout(ls, 20000); p_socket_set_timeout(cl, 20000); h.ls = ls;
	pthread_create(&th, NULL, hc_server, &h);
	if (!p_socket_connect(cl, ba, &err)) { viol("setup", "connect failed: %s", err ? p_error_get_message(err) : ""); p_error_free(err); pthread_join(th, NULL); return; }
	for (off = 0; off < h.req;) { size_t c = (size_t)(h.req - off < (long long)sizeof buf ? h.req - off : (long long)sizeof buf); gen_fill(h.kreq, (uint64_t)off, buf, c); n = p_socket_send(cl, (pchar *)buf, c, &err); if (n <= 0) { viol("send-error", "send of the request failed"); break; } off += n; }
	if (!p_socket_shutdown(cl, FALSE, TRUE, &err)) viol("shutdown-failed", "p_socket_shutdown(write) on a connected socket failed: %s", err ? p_error_get_message(err) : "");
	p_error_free(err); err = NULL;
	for (off = 0;;) { n = p_socket_receive(cl, (pchar *)buf, sizeof buf, &err); if (n <= 0) break; if (gen_check(h.kresp, (uint64_t)off, buf, (size_t)n)) { viol("stream-corrupt", "bytes of the response differ at offset %lld after a write-only shutdown", off); break; } off += n; __atomic_add_fetch(&progress, 1, __ATOMIC_RELAXED); }
	pthread_join(th, NULL);
	if (h.bad == 1) viol("setup", "accept failed");
	else if (h.bad) viol("request-side", "server side of the half-close exchange failed (%d)", h.bad);
	else if (h.got_req != h.req) viol("stream-lost", "the peer read %lld of %lld request bytes before end-of-stream", h.got_req, h.req);
	else if (off != h.resp) viol("stream-lost", "after p_socket_shutdown(read=FALSE, write=TRUE) the socket received %lld of the %lld bytes its peer sent (receive returned %zd%s)", off, h.resp, (ssize_t)n, n < 0 && err ? ", error" : "");
	p_error_free(err);
	st_halfclose++; st_tcp_bytes += h.req + off;
	p_socket_free(cl); p_socket_free(ls); p_socket_address_free(la); p_socket_address_free(ba);
}

int __real_close(int); int __real_socket(int, int, int);
/* ---------------- refused connect: a blocking connect fails for the real reason, it is never reported as completed ----------------
 * The port is reserved by a bound socket that never listens, so the handshake is answered with a reset; the library's descriptor is
 * non-blocking internally, so the refusal arrives after the wait for writability (SO_ERROR). */
static long long st_refused;
static void refused_connect(vh_rng *r, int v6, int inject) {
	int fd = __real_socket(v6 ? AF_INET6 : AF_INET, SOCK_STREAM, 0), port = 0; struct sockaddr_storage ss; socklen_t sl = sizeof ss; PSocket *cl; PSocketAddress *a; PError *err = NULL; pboolean ok;
	scen = inject ? "refused-connect-eintr" : "refused-connect"; w_reset();
	memset(&ss, 0, sizeof ss); ss.ss_family = (sa_family_t)(v6 ? AF_INET6 : AF_INET);
	if (v6) ((struct sockaddr_in6 *)&ss)->sin6_addr = in6addr_loopback; else ((struct sockaddr_in *)&ss)->sin_addr.s_addr = htonl(INADDR_LOOPBACK);
	if (fd >= 0 && bind(fd, (struct sockaddr *)&ss, v6 ? sizeof(struct sockaddr_in6) : sizeof(struct sockaddr_in)) == 0 && getsockname(fd, (struct sockaddr *)&ss, &sl) == 0)
		port = ntohs(v6 ? ((struct sockaddr_in6 *)&ss)->sin6_port : ((struct sockaddr_in *)&ss)->sin_port);
	if (!port) { if (fd >= 0) __real_close(fd); return; }      /* not judged */
	cl = p_socket_new(v6 ? P_SOCKET_FAMILY_INET6 : P_SOCKET_FAMILY_INET, P_SOCKET_TYPE_STREAM, P_SOCKET_PROTOCOL_TCP, NULL);
	a = p_socket_address_new(v6 ? "::1" : "127.0.0.1", (puint16)port);
	if (!cl || !a) { __real_close(fd); p_socket_free(cl); p_socket_address_free(a); return; }
	p_socket_set_timeout(cl, 20000);
	if (inject) set_plans(r, 30, WK_EINTR);
	ok = p_socket_connect(cl, a, &err);
	collect_inj(); w_reset();
	st_refused++;
	if (ok) {
		char b[5] = "ping"; pssize n = p_socket_send(cl, b, 5, NULL);
		viol("connect-reported-completed", "blocking p_socket_connect to a port nobody listens on returned TRUE (is_connected=%d, a following send returned %zd)", (int)p_socket_is_connected(cl), (ssize_t)n);
	} else {
		int code = err ? p_error_get_code(err) : 0, nat = err ? p_error_get_native_code(err) : 0;
		if (code == P_ERROR_IO_WOULD_BLOCK || code == P_ERROR_IO_IN_PROGRESS || nat == EINTR || nat == EAGAIN || nat == EINPROGRESS)
			viol("internal-condition-reported", "blocking p_socket_connect to a refusing port reported an internal condition (code %d native %d) instead of the refusal", code, nat);
		if (p_socket_is_connected(cl)) viol("connected-after-failed-connect", "p_socket_is_connected is TRUE after a refused connect");
	}
	p_error_free(err); __real_close(fd);
	p_socket_free(cl); p_socket_address_free(a);
}

static int vh_isolated;
int main(int argc, char **argv) {
	vh_rng r; double t0 = vh_now(); int tcp = (int)vh_argi(argc, argv, "--tcp", 8), udp = (int)vh_argi(argc, argv, "--udp", 6), i, id; long long bulk = vh_argi(argc, argv, "--bulk", 2 << 20); pthread_t wd;
	vh_seed(&r, (uint64_t)vh_argi(argc, argv, "--seed", 1) * 0xC2B2AE3D27D4EB4FULL);
	signal(SIGPIPE, SIG_DFL);      /* whatever the library does with the disposition happens in p_libsys_init */
	vh_isolated = vh_private_net();
	p_libsys_init();
	pthread_create(&wd, NULL, wd_fn, NULL);
	for (i = 0; i < tcp && vh_nviol < vh_max_viol; i++) {
		int v6 = vh_chance(&r, 40), blocking = !vh_chance(&r, 25), small = vh_chance(&r, 30), density = (int[]){ 0, 5, 15, 30, 50 }[vh_below(&r, 5)], kinds = (int[]){ WK_EINTR, WK_EAGAIN, WK_SHORT, WK_EINTR | WK_EAGAIN | WK_SHORT | WK_SPURIOUS, WK_SPURIOUS | WK_EAGAIN }[vh_below(&r, 5)];
		long long total = small ? 1 + (long long)vh_below(&r, 256 * 1024) : 1 + (long long)vh_below(&r, (uint64_t)bulk); size_t maxchunk = (size_t[]){ 7, 1024, 65536, 1 << 20 }[vh_below(&r, 4)];
		tcp_session(&r, v6, total, blocking, maxchunk, small, vh_chance(&r, 30), density, kinds);
	}
	for (i = 0; i < udp && vh_nviol < vh_max_viol; i++) udp_session(&r, vh_chance(&r, 40), (int)vh_argi(argc, argv, "--dgrams", 300), (int[]){ 0, 10, 30, 50 }[vh_below(&r, 4)], (int[]){ WK_EINTR, WK_EAGAIN, WK_EINTR | WK_EAGAIN | WK_SPURIOUS }[vh_below(&r, 3)]);
	for (i = 0; i < 4 && vh_nviol < vh_max_viol; i++) half_close(&r, i & 1);
	for (i = 0; i < 8 && vh_nviol < vh_max_viol; i++) refused_connect(&r, i & 1, (i >> 1) & 1);
	if (!vh_flag(argc, argv, "--no-peer-gone")) { peer_gone(0, 0, 0); peer_gone(1, 0, 0); peer_gone(0, 1, 0); peer_gone(1, 1, 0); peer_gone(0, 0, 1); peer_gone(1, 0, 1); }
	p_libsys_shutdown();
	printf("{\"ev\":\"stats\",\"tcp_sessions\":%lld,\"tcp_bytes\":%lld,\"udp_sessions\":%lld,\"udp_datagrams\":%lld,\"udp_lost\":%lld,\"udp_truncated\":%lld,\"wouldblock_seen_nonblocking\":%lld,\"peer_gone_cases\":%lld,\"half_close_exchanges\":%lld,\"empty_datagrams\":%lld,\"refused_connects\":%lld,\"injected\":{",
	       st_tcp_sessions, st_tcp_bytes, st_udp_sessions, st_udp_datagrams, st_udp_lost, st_udp_truncated, st_wouldblock_seen, st_peer_gone, st_halfclose, st_udp_empty, st_refused);
	{ int first = 1; for (id = 0; id < W_N; id++) if (st_inj[id][0] + st_inj[id][1] + st_inj[id][2] + st_inj[id][3]) { printf("%s\"%s\":[%ld,%ld,%ld,%ld]", first ? "" : ",", w_names[id], st_inj[id][0], st_inj[id][1], st_inj[id][2], st_inj[id][3]); first = 0; } }
	printf("},\"viol\":%d,\"wall\":%.2f}\n", vh_nviol, vh_now() - t0);
	return 0;
}

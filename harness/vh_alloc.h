/* Tracking / failing allocator installed through the library's PMemVTable (p_libsys_init_full / p_mem_set_vtable).
 * - live-block table with allocation backtrace, serial numbers, snapshot/diff
 * - k-th allocation failpoint (once | sticky) with the failing call's backtrace
 * - double free / foreign free detection, optional free hook
 * Header-only; thread-safe through its own pthread mutex (never a plibsys primitive). */
#ifndef VH_ALLOC_H
#define VH_ALLOC_H
#include <plibsys.h>
#include <pthread.h>
#include <execinfo.h>
#include "vh.h"

#define VA_BT 10
typedef struct { void *addr; size_t size; unsigned long serial; void *bt[VA_BT]; int nbt; } VaBlock;

static pthread_mutex_t va_mu = PTHREAD_MUTEX_INITIALIZER;
static VaBlock *va_tab; static size_t va_cap = 1 << 14, va_live, va_tomb;
#define VA_TOMB ((void *)1)
static unsigned long va_serial;
static volatile long long va_count;          /* allocation calls since last reset */
static long long va_fail_at = -1; static int va_sticky, va_fired; static long long va_fired_count;
static void *va_fail_bt[VA_BT]; static int va_fail_nbt;
static long long va_bad_free, va_total_alloc, va_total_free;
static void (*va_free_hook)(void *addr);
static int va_want_bt = 1;
static void (*va_on_fire)(void);

static size_t va_hash(void *p) { uintptr_t x = (uintptr_t)p; x ^= x >> 17; x *= 0x9E3779B97F4A7C15ULL; return (size_t)(x >> 20); }

static void va_grow(void) {
	VaBlock *old = va_tab; size_t oc = va_cap, i;
	va_cap <<= 1; va_tab = calloc(va_cap, sizeof *va_tab); va_tomb = 0;
	for (i = 0; i < oc; i++) if (old[i].addr && old[i].addr != VA_TOMB) { size_t j = va_hash(old[i].addr) & (va_cap - 1); while (va_tab[j].addr) j = (j + 1) & (va_cap - 1); va_tab[j] = old[i]; }
	free(old);
}
static void va_insert(void *p, size_t n) {
	size_t j;
	if (!va_tab) va_tab = calloc(va_cap, sizeof *va_tab);
	if ((va_live + va_tomb) * 2 > va_cap) va_grow();
	j = va_hash(p) & (va_cap - 1);
	while (va_tab[j].addr && va_tab[j].addr != VA_TOMB) j = (j + 1) & (va_cap - 1);
	if (va_tab[j].addr == VA_TOMB) va_tomb--;
	va_tab[j].addr = p; va_tab[j].size = n; va_tab[j].serial = ++va_serial;
	va_tab[j].nbt = va_want_bt ? backtrace(va_tab[j].bt, VA_BT) : 0;
	va_live++;
}
static VaBlock *va_find(void *p) {
	size_t j;
	if (!va_tab) return NULL;
	j = va_hash(p) & (va_cap - 1);
	while (va_tab[j].addr) { if (va_tab[j].addr == p) return &va_tab[j]; j = (j + 1) & (va_cap - 1); }
	return NULL;
}
static int va_quiet;   /* >0: verification phase of a scenario, allocations are neither counted nor failed */
#define VA_QUIET(stmt) do { va_quiet++; stmt; va_quiet--; } while (0)
static int va_should_fail(void) {
	long long c;
	if (va_quiet) return 0;
	c = ++va_count;
	if (va_fail_at < 0) return 0;
	if (c == va_fail_at || (va_sticky && c > va_fail_at)) {
		if (!va_fired) { va_fail_nbt = backtrace(va_fail_bt, VA_BT); va_fired = 1; if (va_on_fire) va_on_fire(); }
		va_fired = 1; va_fired_count++;
		return 1;
	}
	return 0;
}
static ppointer va_malloc(psize n) {
	void *p;
	pthread_mutex_lock(&va_mu);
	if (va_should_fail()) { pthread_mutex_unlock(&va_mu); return NULL; }
	p = malloc(n);
	if (p) { va_insert(p, n); va_total_alloc++; }
	pthread_mutex_unlock(&va_mu);
	if (p) memset(p, 0xA5, n);        /* fresh blocks are never zero: a field the library forgets to initialise shows (p_malloc0 zeroes on its own) */
	return p;
}
static void va_free(ppointer p) {
	VaBlock *b;
	if (va_free_hook) va_free_hook(p);
	pthread_mutex_lock(&va_mu);
	b = va_find(p);
	if (!b) { va_bad_free++; pthread_mutex_unlock(&va_mu); return; }   /* double / foreign free: recorded, not forwarded */
	{ size_t sz = b->size; b->addr = VA_TOMB; va_live--; va_tomb++; va_total_free++;
	  pthread_mutex_unlock(&va_mu);
	  memset(p, 0x5A, sz); }            /* stale reads of a released block see garbage also in builds without a sanitizer */
	free(p);
}
static ppointer va_realloc(ppointer p, psize n) {
	VaBlock *b; void *q;
	pthread_mutex_lock(&va_mu);
	if (va_should_fail()) { pthread_mutex_unlock(&va_mu); return NULL; }
	b = va_find(p);
	if (!b) { va_bad_free++; pthread_mutex_unlock(&va_mu); return NULL; }
	q = realloc(p, n);
	if (q) { b->addr = VA_TOMB; va_live--; va_tomb++; va_insert(q, n); }
	pthread_mutex_unlock(&va_mu);
	return q;
}
static PMemVTable va_vtable(void) { PMemVTable t; void *warm[4]; backtrace(warm, 4); t.f_malloc = va_malloc; t.f_realloc = va_realloc; t.f_free = va_free; return t; }

static void va_arm(long long k, int sticky) { pthread_mutex_lock(&va_mu); va_count = 0; va_fail_at = k; va_sticky = sticky; va_fired = 0; va_fired_count = 0; pthread_mutex_unlock(&va_mu); }
static void va_disarm(void) { pthread_mutex_lock(&va_mu); va_fail_at = -1; pthread_mutex_unlock(&va_mu); }
static void va_reset_count(void) { pthread_mutex_lock(&va_mu); va_count = 0; pthread_mutex_unlock(&va_mu); }
static unsigned long va_mark(void) { unsigned long s; pthread_mutex_lock(&va_mu); s = va_serial; pthread_mutex_unlock(&va_mu); return s; }
static size_t va_live_blocks(void) { size_t s; pthread_mutex_lock(&va_mu); s = va_live; pthread_mutex_unlock(&va_mu); return s; }
static int va_is_live(void *p) { int r; pthread_mutex_lock(&va_mu); r = va_find(p) != NULL; pthread_mutex_unlock(&va_mu); return r; }

static void va_print_bt(FILE *f, void **bt, int n) { int i; fputc('[', f); for (i = 0; i < n; i++) fprintf(f, "%s\"%p\"", i ? "," : "", bt[i]); fputc(']', f); }

/* print live blocks allocated after `mark` as a JSON array; returns their number */
static int va_report_new(FILE *f, unsigned long mark) {
	size_t i; int n = 0;
	pthread_mutex_lock(&va_mu);
	fputc('[', f);
	for (i = 0; va_tab && i < va_cap; i++) if (va_tab[i].addr && va_tab[i].addr != VA_TOMB && va_tab[i].serial > mark) {
		if (n < 12) { fprintf(f, "%s{\"size\":%zu,\"bt\":", n ? "," : "", va_tab[i].size); va_print_bt(f, va_tab[i].bt, va_tab[i].nbt); fputc('}', f); }
		n++;
	}
	fputc(']', f);
	pthread_mutex_unlock(&va_mu);
	return n;
}
static int va_count_new(unsigned long mark) {
	size_t i; int n = 0;
	pthread_mutex_lock(&va_mu);
	for (i = 0; va_tab && i < va_cap; i++) if (va_tab[i].addr && va_tab[i].addr != VA_TOMB && va_tab[i].serial > mark) n++;
	pthread_mutex_unlock(&va_mu);
	return n;
}
#endif

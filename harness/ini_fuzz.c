/* libFuzzer target for the INI parser (C16 thorough tier): input -> file on tmpfs -> parse -> consistency oracle. */
#include "ini_common.h"
#include <sys/stat.h>
static char path[256];
int LLVMFuzzerInitialize(int *argc, char ***argv) { p_libsys_init(); snprintf(path, sizeof path, "/dev/shm/vf-inifuzz-%d", (int)getpid()); return 0; }
int LLVMFuzzerTestOneInput(const uint8_t *data, size_t size) {
	FILE *f = fopen(path, "wb"); const char *bad;
	if (!f) return 0;
	fwrite(data, 1, size, f); fclose(f);
	bad = ini_check_file(path, NULL, NULL, NULL);
	if (bad && strcmp(bad, "parse failed")) { fprintf(stderr, "VF-INCONSISTENT: %s\n", bad); abort(); }
	return 0;
}

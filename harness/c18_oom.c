/* c18_oom: k-th allocation failure enumeration over representative call sequences of every module (C18).
 *   c18_oom --scenario NAME [--modes 3]      enumerate k = 1..N (N counted in a clean child) in mode once (1) and/or sticky (2)
 *   c18_oom --list
 * Every case runs in a forked child: arm failpoint -> scenario (a careful caller: accepts NULL/FALSE anywhere, frees what it
 * got, checks pre-existing containers) -> disarm -> p_libsys_shutdown -> any live tracked block is a leak.
 * One JSON line per case; crashes are reported by the parent with the child's pid (ASan report on stderr carries ==pid==). */
#include <plibsys.h>
#include <pthread.h>
#include <sys/wait.h>
#include <sys/stat.h>
#include <fcntl.h>
#include <dirent.h>
#include <poll.h>
#include "vh.h"
#include "vh_alloc.h"
#include "vh_ipc.h"

#include "vh_scen.h"

#if defined(__SANITIZE_ADDRESS__)
extern int __lsan_do_recoverable_leak_check(void);
#endif
static int fire_fd = -1; static long long fire_k; static int fire_sticky;
static void on_fire(void) {
	char b[600]; int o, i;
	o = snprintf(b, sizeof b, "{\"ev\":\"fired\",\"pid\":%d,\"k\":%lld,\"sticky\":%d,\"bt\":[", (int)getpid(), fire_k, fire_sticky);
	for (i = 0; i < va_fail_nbt; i++) o += snprintf(b + o, sizeof b - o, "%s\"%p\"", i ? "," : "", va_fail_bt[i]);
	o += snprintf(b + o, sizeof b - o, "]}\n");
	if (write(fire_fd, b, (size_t)o) < 0) {}
}

/* descriptors and /dev/shm-backed mappings of this process (a failed call must not leave any behind either) */
static void res_count(int *nfd, int *nshm) {
	DIR *d = opendir("/proc/self/fd"); struct dirent *e; FILE *f; char line[512]; *nfd = 0; *nshm = 0;
	while (d && (e = readdir(d))) if (e->d_name[0] != '.') (*nfd)++;
	if (d) closedir(d);
	f = fopen("/proc/self/maps", "r");
	while (f && fgets(line, sizeof line, f)) if (strstr(line, "/dev/shm/")) (*nshm)++;
	if (f) fclose(f);
}
/* child body: returns through _exit */
static void child(void (*fn)(void), long long k, int sticky, int outfd) {
	FILE *out = fdopen(outfd, "w"); int nleak, lsan = 0, fd0, shm0, fd1, shm1; long long n;
	snprintf(uniq, sizeof uniq, "vfC18-%d", (int)getpid());
	alarm(60);
	fire_fd = outfd; fire_k = k; fire_sticky = sticky; va_on_fire = on_fire;
	res_count(&fd0, &shm0);
	if (k > 0) va_arm(k, sticky); else va_reset_count();
	fn();
	n = va_count;
	va_disarm();
	p_libsys_shutdown();
	res_count(&fd1, &shm1);
#if defined(__SANITIZE_ADDRESS__)
	/* memory obtained from libc on the library's behalf (getaddrinfo results, ...) never passes through the allocator table: ask the
	 * leak checker of the sanitizer run-time about everything unreachable at this point (needs ASAN_OPTIONS=detect_leaks=1) */
	lsan = getenv("VH_LSAN") ? __lsan_do_recoverable_leak_check() : 0;
#endif
	fprintf(out, "{\"ev\":\"case\",\"pid\":%d,\"lsan\":%d,\"fds_left\":%d,\"shm_maps_left\":%d,\"scenario\":\"%s\",\"k\":%lld,\"sticky\":%d,\"allocs\":%lld,\"fired\":%d,\"bad_free\":%lld,\"damage\":%s%s%s,\"leaks\":", (int)getpid(), lsan, fd1 - fd0, shm1 - shm0, scname, k, sticky, n, va_fired, va_bad_free,
	        damage ? "\"" : "", damage ? damage_what : "null", damage ? "\"" : "");
	nleak = va_report_new(out, 0);
	fprintf(out, ",\"nleaks\":%d}\n", nleak);
	fflush(out);
	_exit(0);
}

static long long run_case(void (*fn)(void), long long k, int sticky) {
	int pfd[2], efd[2], status; pid_t pid; static char buf[65536], ebuf[32768]; size_t len = 0, elen = 0; long long allocs = -1; char *p; int open_o = 1, open_e = 1;
	if (pipe(pfd) || pipe(efd)) VH_DIE("pipe");
	fflush(stdout);
	pid = fork();
	if (pid == 0) { close(pfd[0]); close(efd[0]); dup2(efd[1], 2); close(efd[1]); child(fn, k, sticky, pfd[1]); }
	close(pfd[1]); close(efd[1]);
	while (open_o || open_e) {
		struct pollfd pf[2]; ssize_t n;
		pf[0].fd = open_o ? pfd[0] : -1; pf[0].events = POLLIN; pf[1].fd = open_e ? efd[0] : -1; pf[1].events = POLLIN; pf[0].revents = pf[1].revents = 0;
		if (poll(pf, 2, -1) < 0) continue;
		if (open_o && pf[0].revents) { n = read(pfd[0], buf + len, sizeof buf - 1 - len); if (n > 0) len += (size_t)n; else open_o = 0; }
		if (open_e && pf[1].revents) { char tmp[4096]; n = read(efd[0], elen < sizeof ebuf - 1 ? ebuf + elen : tmp, elen < sizeof ebuf - 1 ? sizeof ebuf - 1 - elen : sizeof tmp); if (n > 0) { if (elen < sizeof ebuf - 1) elen += (size_t)n; } else open_e = 0; }
	}
	buf[len] = 0; ebuf[elen] = 0; close(pfd[0]); close(efd[0]);
	waitpid(pid, &status, 0);
	fputs(buf, stdout);
	if ((p = strstr(buf, "\"allocs\":"))) allocs = atoll(p + 9);
	if (strstr(buf, "\"lsan\":1")) { printf("{\"ev\":\"lsan\",\"pid\":%d,\"scenario\":\"%s\",\"k\":%lld,\"sticky\":%d,\"stderr\":", (int)pid, scname, k, sticky); vh_json_str(stdout, ebuf); printf("}\n"); }
	if (WIFSIGNALED(status) || WEXITSTATUS(status) != 0) {
		printf("{\"ev\":\"crash\",\"pid\":%d,\"scenario\":\"%s\",\"k\":%lld,\"sticky\":%d,\"signal\":%d,\"exit\":%d,\"stderr\":", (int)pid, scname, k, sticky,
		       WIFSIGNALED(status) ? WTERMSIG(status) : 0, WIFSIGNALED(status) ? 0 : WEXITSTATUS(status));
		vh_json_str(stdout, ebuf); printf("}\n");
	}
	if (!WIFEXITED(status) || WEXITSTATUS(status)) {
		char nm[96], path[64];
		snprintf(nm, sizeof nm, "vfC18-%d-sem", (int)pid); vh_sem_path(nm, path); unlink(path);
		snprintf(nm, sizeof nm, "vfC18-%d-shm", (int)pid); vh_shm_path(nm, path); unlink(path); vh_shm_sem_path(nm, path); unlink(path);
		snprintf(nm, sizeof nm, "vfC18-%d-buf", (int)pid); vh_shm_path(nm, path); unlink(path); vh_shm_sem_path(nm, path); unlink(path);
	}
	return allocs;
}

#if defined(__SANITIZE_ADDRESS__)
static void __attribute__((noinline)) lsan_probe_leak(void) { volatile char *p; int i; for (i = 0; i < 8; i++) { p = malloc(37 + (size_t)i); p[0] = 1; } p = NULL; (void)p; }
#endif
int main(int argc, char **argv) {
	PMemVTable vt; int i, modes = (int)vh_argi(argc, argv, "--modes", 3); long long N, k; void (*fn)(void) = NULL; double t0 = vh_now(); long long cases = 0;
	if (vh_flag(argc, argv, "--list")) { for (i = 0; i < NSC; i++) puts(SC[i].name); return 0; }
	if (vh_flag(argc, argv, "--lsan-probe")) {     /* does the leak checker work in this environment?  (it needs ptrace on its own threads) */
#if defined(__SANITIZE_ADDRESS__)
		char pad[256]; lsan_probe_leak(); memset(pad, 0, sizeof pad); printf("{\"ev\":\"lsan-probe\",\"found\":%d}\n", __lsan_do_recoverable_leak_check());
#else
		printf("{\"ev\":\"lsan-probe\",\"found\":-1}\n");
#endif
		fflush(NULL); _exit(0);
	}
	scname = vh_arg(argc, argv, "--scenario", "list");
	for (i = 0; i < NSC; i++) if (!strcmp(SC[i].name, scname)) fn = SC[i].fn;
	if (!fn) VH_DIE("unknown scenario %s", scname);
	(void)vh_private_net();
	prepare_files();
	vt = va_vtable();
	p_libsys_init_full(&vt);
	hash_refs_prepare();
	N = run_case(fn, 0, 0);
	if (N < 0) { printf("{\"ev\":\"stats\",\"scenario\":\"%s\",\"N\":-1,\"cases\":0}\n", scname); cleanup_files(); return 0; }
	for (i = 1; i <= 2; i++) if (modes & i) for (k = 1; k <= N + 1; k++) { run_case(fn, k, i == 2); cases++; }
	printf("{\"ev\":\"stats\",\"scenario\":\"%s\",\"N\":%lld,\"cases\":%lld,\"wall\":%.2f}\n", scname, N, cases, vh_now() - t0);
	cleanup_files();
	fflush(NULL); _exit(0);       /* no end-of-process leak report for the enumerating parent itself */
}

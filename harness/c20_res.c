/* c20_res: resource neutrality monitor (C20).  For every scenario (create-use-free sequences with successful and
 * failing exits, shared with C18) and for random concatenations of them:
 *   warm-up once, snapshot, then R repetitions; after EACH repetition compare
 *   (a) tracked library allocations (live blocks newer than the snapshot mark, with allocation backtrace)
 *   (b) /proc/self/fd        (c) /dev/shm-backed mappings in /proc/self/maps
 *   (d) the IPC names the scenario used (computed platform keys) in /dev/shm
 *   (e) descriptor life-cycle table of wrap_sys.c: every descriptor handed to plibsys by socket/accept/shm_open is
 *       closed exactly once, nothing closed twice. */
#include <plibsys.h>
#include <pthread.h>
#include <dirent.h>
#include <sys/stat.h>
#include <fcntl.h>
#include "vh.h"
#include "vh_alloc.h"
#include "vh_ipc.h"
#include "wrap_sys.h"
#include "vh_scen.h"

#if defined(__SANITIZE_ADDRESS__)
extern int __lsan_do_recoverable_leak_check(void);
#endif
static const char *cur_sc = "-";
static long long st_reps, st_checks, st_fd_opened, st_names_checked, st_blocks_alloc, st_failing_reps;

static void viol(const char *symptom, const char *detail_key, const char *fmt, ...) __attribute__((format(printf, 3, 4)));
static void viol(const char *symptom, const char *detail_key, const char *fmt, ...) {
	char key[300], buf[1500]; va_list ap;
	va_start(ap, fmt); vsnprintf(buf, sizeof buf, fmt, ap); va_end(ap);
	snprintf(key, sizeof key, "resource=%s %s", symptom, detail_key);
	if (vh_nviol < vh_max_viol) vh_viol("C20", key, "scenario %s: %s", cur_sc, buf);
}

/* ---- /proc snapshots ---- */
typedef struct { int fds[512]; int nfd; int shm_maps; long shm_map_bytes; int total_maps; } Snap;
static void snap_take(Snap *s) {
	DIR *d = opendir("/proc/self/fd"); struct dirent *e; FILE *f; char line[512]; int dfd = d ? dirfd(d) : -1;
	s->nfd = 0; s->shm_maps = 0; s->shm_map_bytes = 0; s->total_maps = 0;
	while (d && (e = readdir(d))) { int fd; if (e->d_name[0] == '.') continue; fd = atoi(e->d_name); if (fd == dfd) continue; if (s->nfd < 512) s->fds[s->nfd++] = fd; }
	if (d) closedir(d);
	f = fopen("/proc/self/maps", "r");
	while (f && fgets(line, sizeof line, f)) { unsigned long a, b; s->total_maps++; if (strstr(line, "/dev/shm/") && sscanf(line, "%lx-%lx", &a, &b) == 2) { s->shm_maps++; s->shm_map_bytes += (long)(b - a); } }
	if (f) fclose(f);
}
static int cmp_int(const void *a, const void *b) { return *(const int *)a - *(const int *)b; }
static void snap_compare(const Snap *base, const Snap *now) {
	int i, j; Snap a = *base, b = *now;
	qsort(a.fds, a.nfd, sizeof(int), cmp_int); qsort(b.fds, b.nfd, sizeof(int), cmp_int);
	for (i = 0, j = 0; i < a.nfd || j < b.nfd;) {
		if (j >= b.nfd || (i < a.nfd && a.fds[i] < b.fds[j])) { viol("descriptor", "symptom=closed-foreign", "descriptor %d that was open before the sequence is gone", a.fds[i]); i++; }
		else if (i >= a.nfd || b.fds[j] < a.fds[i]) {
			char p[64], t[256]; ssize_t n; snprintf(p, sizeof p, "/proc/self/fd/%d", b.fds[j]); n = readlink(p, t, sizeof t - 1); t[n > 0 ? n : 0] = 0;
			viol("descriptor", strstr(t, "socket:") ? "symptom=left-open kind=socket" : strstr(t, "/dev/shm") ? "symptom=left-open kind=shm" : "symptom=left-open kind=other", "descriptor %d (%s) still open after everything was freed", b.fds[j], t); j++;
		} else { i++; j++; }
	}
	if (now->shm_maps != base->shm_maps || now->shm_map_bytes != base->shm_map_bytes)
		viol("mapping", "symptom=shm-mapping-left", "%d /dev/shm mappings (%ld bytes) before, %d (%ld bytes) after everything was freed", base->shm_maps, base->shm_map_bytes, now->shm_maps, now->shm_map_bytes);
}

static void check_names(void) {
	int i; char p[64];
	for (i = 0; i < n_ipc; i++) {
		st_names_checked++;
		if (ipc_kinds[i] == 0) { vh_sem_path(ipc_names[i], p); if (vh_exists(p)) { viol("ipc-name", "symptom=semaphore-name-left", "semaphore name %s (%s) still exists after the owner freed it", ipc_names[i], p); unlink(p); } }
		else { vh_shm_path(ipc_names[i], p); if (vh_exists(p)) { viol("ipc-name", ipc_kinds[i] == 1 ? "symptom=shm-name-left" : "symptom=shmbuffer-name-left", "segment %s (%s) still exists after the owner freed it", ipc_names[i], p); unlink(p); }
			vh_shm_sem_path(ipc_names[i], p); if (vh_exists(p)) { viol("ipc-name", "symptom=shm-lock-semaphore-left", "lock semaphore of %s (%s) still exists", ipc_names[i], p); unlink(p); } }
	}
	n_ipc = 0;
}

/* allocation site summary of surplus blocks: printed as raw addresses, symbolised by the orchestrator */
static void check_allocs(unsigned long mark) {
	int n = 0, tries;
	for (tries = 0; tries < 3000; tries++) { n = va_count_new(mark); if (!n) break; usleep(5000); }    /* detached threads may still be dropping their handle */
	if (n) {
		printf("{\"ev\":\"leakblocks\",\"scenario\":\"%s\",\"blocks\":", cur_sc); va_report_new(stdout, mark); printf("}\n");
	}
	if (va_bad_free) { viol("allocation", "symptom=double-or-foreign-free", "%lld frees of blocks that are not live", va_bad_free); va_bad_free = 0; }
}

static void check_fdtable(long *base) {
	long o, c, s, d, u; w_fd_stats(&o, &c, &s, &d, &u);
	st_fd_opened = o;
	if (d > base[3]) { viol("descriptor", "symptom=closed-twice", "%ld close() calls on descriptors that were already closed", d - base[3]); base[3] = d; }
	if (s > base[2]) { viol("descriptor", "symptom=never-closed", "%ld descriptors obtained through socket/accept/shm_open were not closed", s - base[2]); base[2] = s; }
}

static void run_one(void (*fn)(void)) { snprintf(uniq, sizeof uniq, "vfC20-%d-%lld", (int)getpid(), st_reps); damage = 0; fn(); st_reps++; if (damage) viol("behaviour", "symptom=scenario-self-check", "%s", damage_what); }

int main(int argc, char **argv) {
	PMemVTable vt; vh_rng r; double t0 = vh_now(); int i, R = (int)vh_argi(argc, argv, "--R", 5), ncat = (int)vh_argi(argc, argv, "--concat", 20); const char *only = vh_arg(argc, argv, "--scenario", NULL);
	Snap base, now; long fdbase[5] = { 0, 0, 0, 0, 0 }; unsigned long mark; long long nalloc = 0;
	vh_seed(&r, (uint64_t)vh_argi(argc, argv, "--seed", 1) * 6364136223846793005ULL);
	if (vh_flag(argc, argv, "--list")) { for (i = 0; i < NSC; i++) puts(SC[i].name); return 0; }
	(void)vh_private_net();
	prepare_files();
	vt = va_vtable();
	p_libsys_init_full(&vt);
	hash_refs_prepare();
	(void)p_uthread_current();
	for (i = 0; i < NSC && vh_nviol < vh_max_viol; i++) {
		int rep;
		if (only && strcmp(only, SC[i].name)) continue;
		if (!strcmp(SC[i].name, "init_shutdown")) continue;       /* handled at the very end: the whole process is the sequence */
		cur_sc = SC[i].name;
		va_reset_count();
		run_one(SC[i].fn); n_ipc = 0; usleep(20000);                /* warm-up: libc/dl/stdio caches */
		nalloc = va_count;
		{ long o, c, s, d, u; w_fd_stats(&o, &c, &s, &d, &u); fdbase[2] = s; fdbase[3] = d; }
		va_bad_free = 0;
		snap_take(&base); mark = va_mark();
		for (rep = 0; rep < R && vh_nviol < vh_max_viol; rep++) {
			/* "this holds equally when calls in the sequence fail": every second repetition one allocation of the sequence is refused */
			if ((rep & 1) && nalloc > 0 && strcmp(SC[i].name, "thread") && strcmp(SC[i].name, "threads_tls") && strcmp(SC[i].name, "thread_foreign") && strcmp(SC[i].name, "tls_first_use")) { va_arm(1 + (long long)vh_below(&r, (uint64_t)nalloc), 0); st_failing_reps++; }
			run_one(SC[i].fn);
			va_disarm();
			check_allocs(mark); snap_take(&now); snap_compare(&base, &now); check_names(); check_fdtable(fdbase); st_checks++;
			if (vh_nviol) break;
		}
	}
	/* random concatenations */
	if (!only) {
		for (i = 0; i < ncat && vh_nviol < vh_max_viol; i++) {
			int len = 2 + (int)vh_below(&r, 6), j; char desc[400]; int o = 0;
			snap_take(&base); mark = va_mark(); desc[0] = 0;
			for (j = 0; j < len; j++) { int k = (int)vh_below(&r, NSC - 1); o += snprintf(desc + o, sizeof desc - o, "%s%s", j ? "+" : "", SC[k].name); cur_sc = SC[k].name; run_one(SC[k].fn); }
			cur_sc = "concat";
			check_allocs(mark); snap_take(&now); snap_compare(&base, &now); check_names(); check_fdtable(fdbase); st_checks++;
			if (i == 0) printf("{\"ev\":\"sample\",\"concat\":\"%s\"}\n", desc);
		}
	}
	/* whole-process neutrality: after shutdown nothing the library allocated may be alive */
	cur_sc = "process-lifetime";
	p_libsys_shutdown();
	if (va_count_new(0)) { printf("{\"ev\":\"leakblocks\",\"scenario\":\"after-shutdown\",\"blocks\":"); va_report_new(stdout, 0); printf("}\n"); }
	cleanup_files();
#if defined(__SANITIZE_ADDRESS__)
	/* memory the library obtained from libc directly (not through the allocator table) and never released: the sanitizer's leak checker sees it
	 * as unreachable now that every object is freed and the library is shut down (report on stderr, parsed by the orchestrator) */
	if (getenv("VH_LSAN")) printf("{\"ev\":\"lsan\",\"leaks\":%d}\n", __lsan_do_recoverable_leak_check());
#endif
	printf("{\"ev\":\"stats\",\"scenario_runs\":%lld,\"runs_with_a_refused_allocation\":%lld,\"neutrality_checks\":%lld,\"descriptors_tracked\":%ld,\"ipc_names_checked\":%lld,\"allocations\":%lld,\"frees\":%lld,\"viol\":%d,\"wall\":%.2f}\n",
	       st_reps, st_failing_reps, st_checks, st_fd_opened, st_names_checked, va_total_alloc, va_total_free, vh_nviol, vh_now() - t0);
	fflush(NULL); _exit(0);
}

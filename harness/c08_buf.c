/* c08_buf: PShmBuffer against a reference FIFO byte queue (C08).
 *   --mode seq      : sequential model comparison after every operation, several capacities, several handles
 *   --mode threads  : producers/consumers (threads) exchanging fixed-size records; atomicity, exactly-once, order
 *   --mode procs    : the same with forked processes, each with its own handle
 */
#include <plibsys.h>
#include <pthread.h>
#include <sys/wait.h>
#include <signal.h>
#include "vh.h"
#include "vh_ipc.h"

static char prefix[64];
static const char *scen = "-";
static const char *cur_op = "-";
static int abort_hist;

static void viol(const char *symptom, const char *fmt, ...) __attribute__((format(printf, 2, 3)));
static void viol(const char *symptom, const char *fmt, ...) {
	char key[200], buf[1500]; va_list ap;
	va_start(ap, fmt); vsnprintf(buf, sizeof buf, fmt, ap); va_end(ap);
	if (!strncmp(scen, "multi-handle", 12)) snprintf(key, sizeof key, "%s", scen);   /* one finding whatever the symptom */
	else snprintf(key, sizeof key, "%s op=%s symptom=%s", scen, cur_op, symptom);
	abort_hist = 1;
	if (vh_nviol < vh_max_viol) vh_viol("C08", key, "%s", buf);
}

/* ------------------------------------------------ seq ------------------------------------------------ */
static long long st_ops, st_w_ok, st_w_full, st_r, st_r_empty, st_wrap_w, st_wrap_r, st_clear, st_query, st_seg_checks, st_bufs, st_reopens;
static long long st_lenclass[10];

typedef struct { unsigned char *d; size_t cap, head, used; } Ring;   /* reference FIFO */
static void ring_push(Ring *q, const unsigned char *p, size_t n) { size_t i; for (i = 0; i < n; i++) q->d[(q->head + q->used + i) % q->cap] = p[i]; q->used += n; }
static void ring_pop(Ring *q, unsigned char *p, size_t n) { size_t i; for (i = 0; i < n; i++) p[i] = q->d[(q->head + i) % q->cap]; q->head = (q->head + n) % q->cap; q->used -= n; }

static size_t pick_len(vh_rng *r, size_t S, size_t pivot, int *cls) {
	int k = (int)vh_below(r, 10); *cls = k;
	switch (k) {
	case 0: return 0;
	case 1: return 1;
	case 2: return pivot ? pivot - 1 : 0;
	case 3: return pivot;
	case 4: return pivot + 1;
	case 5: return S;
	case 6: return S + 1;
	case 7: return (size_t)vh_below(r, S + 3);
	case 8: return 1 + (size_t)vh_below(r, S < 8 ? S : 8);
	default: return S > 2 ? S / 2 + (size_t)vh_below(r, 3) : 1;
	}
}

static void seq_capacity(vh_rng *r, size_t S, long long ops, int smaller) {
	char name[128], path[64]; PShmBuffer *h[5]; int nh = 0, i, fd; PError *err = NULL;
	Ring q; unsigned char *seg; size_t seglen, maplen, modulus = S + 1; long long n; unsigned char ctr = 1;
	static unsigned long uniq;
	snprintf(name, sizeof name, "%s-seq-%lu-%zu", prefix, ++uniq, S);
	abort_hist = 0; cur_op = "new";
	h[nh] = p_shm_buffer_new(name, S, &err);
	if (!h[nh]) { viol("new-failed", "p_shm_buffer_new(%zu) failed: %s", S, err ? p_error_get_message(err) : "?"); p_error_free(err); return; }
	p_shm_buffer_take_ownership(h[0]); nh++; st_bufs++;
	if (!smaller) {
		size_t args[3]; args[0] = S; args[1] = S + 1 + (size_t)vh_below(r, 5000); args[2] = 0;
		for (i = 0; i < 3; i++) { h[nh] = p_shm_buffer_new(name, args[i], NULL); if (!h[nh]) { viol("open-failed", "opening existing buffer with size argument %zu failed", args[i]); } else nh++; }
	} else {
		size_t a = S > 2 ? S / 2 : 1; if (a >= S) a = S - 1;
		if (a == 0) { p_shm_buffer_free(h[0]); return; }
		h[nh] = p_shm_buffer_new(name, a, NULL); if (!h[nh]) viol("open-failed", "opening existing buffer with smaller size argument failed"); else nh++;
	}
	vh_shm_path(name, path);
	fd = open(path, O_RDONLY);
	if (fd < 0) { viol("segment-file", "cannot open %s", path); goto out; }
	seglen = (size_t)vh_fsize(path); maplen = (seglen + 4095) & ~(size_t)4095;
	if (seglen != S + 2 * sizeof(psize) + 1) viol("segment-size", "segment file is %zu bytes for capacity %zu", seglen, S);
	seg = mmap(NULL, maplen, PROT_READ, MAP_SHARED, fd, 0); close(fd);
	if (seg == MAP_FAILED) VH_DIE("mmap segment");
	q.d = malloc(S + 1); q.cap = S + 1; q.head = 0; q.used = 0;
	for (n = 0; n < ops && !abort_hist; n++) {
		PShmBuffer *b = h[vh_below(r, nh)]; int op = (int)vh_below(r, 100), cls; size_t len, j;
		st_ops++;
		if (op < 45) {
			size_t fr = S - q.used; unsigned char *data; pssize ret;
			cur_op = "write"; len = pick_len(r, S, fr, &cls); st_lenclass[cls]++;
			data = malloc(len ? len : 1); for (j = 0; j < len; j++) data[j] = ctr++;
			ret = p_shm_buffer_write(b, data, len, NULL);
			if (len == 0) { if (ret != 0 && ret != -1) viol("write-len0", "write of 0 bytes returned %zd", (ssize_t)ret); }
			else if (len <= fr) { if (ret != (pssize)len) viol("write-return", "write(%zu) with %zu free returned %zd", len, fr, (ssize_t)ret); else { if ((q.head + q.used) % q.cap + len > q.cap) st_wrap_w++; ring_push(&q, data, len); st_w_ok++; } }
			else { if (ret != 0) viol("write-overfull", "write(%zu) with only %zu free returned %zd (must append nothing and return 0)", len, fr, (ssize_t)ret); st_w_full++; }
			free(data);
		} else if (op < 85) {
			size_t us = q.used, want, bl; unsigned char *out, *expb; pint ret;
			cur_op = "read"; len = pick_len(r, S, us, &cls); st_lenclass[cls]++;
			want = len < us ? len : us; bl = len ? len : 1;
			out = malloc(bl); memset(out, 0xEE, bl); expb = malloc(want ? want : 1);
			ret = p_shm_buffer_read(b, out, len, NULL);
			if (len == 0) { if (ret != 0 && ret != -1) viol("read-len0", "read of 0 bytes returned %d", ret); }
			else if (ret != (pint)want) viol("read-return", "read(%zu) with %zu used returned %d, expected %zu", len, us, ret, want);
			else {
				if (q.head + want > q.cap) st_wrap_r++;
				ring_pop(&q, expb, want);
				if (memcmp(out, expb, want)) viol("read-bytes", "read(%zu) returned bytes that are not the oldest %zu bytes in order", len, want);
				for (j = want; j < len; j++) if (out[j] != 0xEE) { viol("read-overwrote", "read wrote beyond the returned count"); break; }
				if (want) st_r++; else st_r_empty++;
			}
			free(out); free(expb);
		} else if (op < 94) { cur_op = "query"; st_query++; }
		else if (op < 97) {
			/* a handle that is not the owner goes away and another one is opened: every handle opened while the buffer exists is the same queue */
			cur_op = "reopen";
			if (!smaller && nh > 1) {
				int k = 1 + (int)vh_below(r, (uint64_t)nh - 1); size_t arg = vh_chance(r, 50) ? S : vh_chance(r, 50) ? 0 : S + 1 + (size_t)vh_below(r, 3000);
				p_shm_buffer_free(h[k]);
				if (!vh_exists(path)) { viol("name-removed-by-non-owner", "the buffer's name disappeared when a handle that never took ownership was freed"); break; }
				h[k] = p_shm_buffer_new(name, arg, NULL); st_reopens++;
				if (!h[k]) { viol("open-failed", "re-opening the existing buffer with size argument %zu failed", arg); h[k] = h[nh - 1]; nh--; }
			}
		}
		else { cur_op = "clear"; p_shm_buffer_clear(b); q.head = 0; q.used = 0; st_clear++; }
		if (abort_hist) break;
		{
			PShmBuffer *b2 = h[vh_below(r, nh)]; pssize u = p_shm_buffer_get_used_space(b2, NULL), f = p_shm_buffer_get_free_space(b2, NULL); psize rp, wp;
			if (u != (pssize)q.used) viol("used-space", "used space %zd, model %zu", (ssize_t)u, q.used);
			else if (f != (pssize)(S - q.used)) viol("free-space", "free space %zd, model %zu (capacity %zu)", (ssize_t)f, S - q.used, S);
			/* segment inspection through an independent mapping */
			memcpy(&rp, seg, sizeof rp); memcpy(&wp, seg + sizeof rp, sizeof wp); st_seg_checks++;
			if (rp >= modulus || wp >= modulus) viol("header-range", "position words %zu/%zu out of range for capacity %zu", (size_t)rp, (size_t)wp, S);
			for (j = seglen; j < maplen; j++) if (seg[j]) { viol("wrote-outside-segment", "byte at offset %zu beyond the segment size %zu is non-zero", j, seglen); break; }
		}
	}
	munmap(seg, maplen); free(q.d);
out:
	cur_op = "free";
	for (i = nh - 1; i >= 0; i--) p_shm_buffer_free(h[i]);
	{ char sp[64]; vh_shm_sem_path(name, sp); if (vh_exists(path)) viol("name-left", "segment %s left after owner free", path); if (vh_exists(sp)) viol("name-left", "lock semaphore %s left after owner free", sp); }
}

static void run_seq(vh_rng *r, long long ops, int smaller) {
	static const size_t caps[] = { 1, 2, 3, 7, 8, 63, 64, 100, 1023, 1024, 4079, 4080, 4081, 4095, 4096, 4097, 9000 };
	int i, nc = sizeof caps / sizeof caps[0]; long long per = ops / nc + 1;
	scen = smaller ? "multi-handle size-arg=smaller" : "seq";
	for (i = 0; i < nc && vh_nviol < vh_max_viol; i++) {
		size_t S = caps[i]; long long left = per;
		while (left > 0 && vh_nviol < vh_max_viol) { long long chunk = 200 + (long long)vh_below(r, 4000); if (chunk > left) chunk = left; seq_capacity(r, S, chunk, smaller); left -= chunk; if (smaller && abort_hist) break; }
	}
	{ size_t S = 2 + (size_t)vh_below(r, 20000); seq_capacity(r, S, per, smaller); }
}

/* ------------------------------------------------ concurrent ------------------------------------------------ */
#define REC 24
typedef struct { uint32_t prod, seq; unsigned char pat[REC - 12]; uint32_t sum; } Rec;
typedef struct {
	long long consumed, produced, torn, bad, full_retries, empty_reads, done_flag;
	long long order_viol;
	int P, C; long long N;
	uint32_t log[1];    /* per consumer: count + entries (prod<<24|seq) laid out by offset */
} Shared;
static Shared *sh; static size_t log_stride;
static char cname[128]; static size_t ccap;

static void mk_rec(Rec *x, uint32_t p, uint32_t s) { int i; uint32_t sum = p * 2654435761u ^ s; x->prod = p; x->seq = s; for (i = 0; i < REC - 12; i++) { x->pat[i] = (unsigned char)(p * 31 + s * 7 + i); sum = sum * 33 + x->pat[i]; } x->sum = sum; }
static int ok_rec(const Rec *x) { Rec y; if (x->prod >= 64) return 0; mk_rec(&y, x->prod, x->seq); return !memcmp(x, &y, REC); }

static void producer(PShmBuffer *b, int id) {
	long long s;
	for (s = 0; s < sh->N; s++) {
		Rec x; pssize ret; mk_rec(&x, (uint32_t)id, (uint32_t)s);
		for (;;) {
			ret = p_shm_buffer_write(b, &x, REC, NULL);
			if (ret == REC) break;
			if (ret != 0) { __sync_fetch_and_add(&sh->bad, 1); return; }
			if (__atomic_load_n(&sh->done_flag, __ATOMIC_RELAXED)) return;
			__sync_fetch_and_add(&sh->full_retries, 1);
			if ((s & 7) == 0) sched_yield();
		}
		__sync_fetch_and_add(&sh->produced, 1);
	}
}
static void consumer(PShmBuffer *b, int id) {
	uint32_t *lg = (uint32_t *)((char *)sh->log + log_stride * id); long long last[64]; int i;
	for (i = 0; i < 64; i++) last[i] = -1;
	long long idle = 0;
	while (__atomic_load_n(&sh->consumed, __ATOMIC_RELAXED) < (long long)sh->P * sh->N && !__atomic_load_n(&sh->done_flag, __ATOMIC_RELAXED)) {
		Rec x; pint ret = p_shm_buffer_read(b, &x, REC, NULL);
		if (ret == 0) {
			__sync_fetch_and_add(&sh->empty_reads, 1); sched_yield();
			/* all records produced but the queue stays empty: records were lost; stop and let the offline check say so */
			if (__atomic_load_n(&sh->produced, __ATOMIC_RELAXED) == (long long)sh->P * sh->N && ++idle > 200000) { __atomic_store_n(&sh->done_flag, 1, __ATOMIC_RELAXED); return; }
			continue;
		}
		idle = 0;
		if (ret != REC) { __sync_fetch_and_add(&sh->torn, 1); __atomic_store_n(&sh->done_flag, 1, __ATOMIC_RELAXED); return; }
		if (!ok_rec(&x)) { __sync_fetch_and_add(&sh->torn, 1); __atomic_store_n(&sh->done_flag, 1, __ATOMIC_RELAXED); return; }
		if ((long long)x.seq <= last[x.prod]) __sync_fetch_and_add(&sh->order_viol, 1);
		last[x.prod] = x.seq;
		lg[1 + lg[0]++] = (x.prod << 24) | x.seq;
		__sync_fetch_and_add(&sh->consumed, 1);
	}
}

typedef struct { int id, is_prod; PShmBuffer *b; } Targ;
static void *thr(void *a) { Targ *t = a; if (t->is_prod) producer(t->b, t->id); else consumer(t->b, t->id); return NULL; }

static void run_conc(vh_rng *r, int procs, int P, int C, long long N, size_t cap) {
	size_t shlen; PShmBuffer *owner; int i; long long total = (long long)P * N; unsigned char *seen;
	static unsigned long uniq;
	scen = procs ? "concurrent-procs" : "concurrent-threads"; cur_op = "exchange";
	log_stride = sizeof(uint32_t) * (size_t)(total + 2);
	shlen = sizeof(Shared) + log_stride * C + 64;
	sh = mmap(NULL, shlen, PROT_READ | PROT_WRITE, MAP_SHARED | MAP_ANONYMOUS, -1, 0);
	if (sh == MAP_FAILED) VH_DIE("mmap shared");
	memset((void *)sh, 0, sizeof(Shared)); sh->P = P; sh->C = C; sh->N = N;
	snprintf(cname, sizeof cname, "%s-conc-%lu", prefix, ++uniq); ccap = cap;
	owner = p_shm_buffer_new(cname, cap, NULL);
	if (!owner) { viol("new-failed", "p_shm_buffer_new"); return; }
	p_shm_buffer_take_ownership(owner); p_shm_buffer_clear(owner);
	if (!procs) {
		pthread_t th[128]; Targ ta[128]; PShmBuffer *extra[128]; int n = 0, ne = 0;
		for (i = 0; i < P + C; i++) {
			ta[n].id = i < P ? i : i - P; ta[n].is_prod = i < P;
			if (vh_chance(r, 50)) ta[n].b = owner; else { ta[n].b = extra[ne++] = p_shm_buffer_new(cname, vh_chance(r, 50) ? cap : 0, NULL); if (!ta[n].b) { viol("open-failed", "second handle"); ta[n].b = owner; ne--; } }
			n++;
		}
		for (i = 0; i < n; i++) pthread_create(&th[i], NULL, thr, &ta[i]);
		for (i = 0; i < n; i++) pthread_join(th[i], NULL);
		for (i = 0; i < ne; i++) p_shm_buffer_free(extra[i]);
	} else {
		pid_t pids[128]; int n = 0, status;
		for (i = 0; i < P + C; i++) {
			pid_t pid = fork();
			if (pid == 0) {
				PShmBuffer *b = p_shm_buffer_new(cname, (i & 1) ? cap : 0, NULL);
				if (!b) _exit(3);
				if (i < P) producer(b, i); else consumer(b, i - P);
				p_shm_buffer_free(b);
				_exit(0);
			}
			pids[n++] = pid;
		}
		for (i = 0; i < n; i++) { waitpid(pids[i], &status, 0); if (!WIFEXITED(status) || WEXITSTATUS(status)) { if (WIFSIGNALED(status)) viol("child-crash", "child killed by signal %d", WTERMSIG(status)); else viol("child-failed", "child exit %d", WEXITSTATUS(status)); } }
	}
	/* offline check of the logs */
	if (sh->torn) viol("torn-record", "%lld reads returned a partial or corrupted record (operations are not atomic w.r.t. each other)", (long long)sh->torn);
	if (sh->bad) viol("write-return", "a record write returned neither 0 nor the record length");
	if (sh->order_viol) viol("order", "%lld records of one producer seen out of order by one consumer", (long long)sh->order_viol);
	if (!abort_hist) {
		seen = calloc((size_t)total, 1);
		for (i = 0; i < C; i++) {
			uint32_t *lg = (uint32_t *)((char *)sh->log + log_stride * i), k;
			for (k = 0; k < lg[0]; k++) { uint32_t p = lg[1 + k] >> 24, s = lg[1 + k] & 0xffffff; if (p >= (uint32_t)P || s >= (uint32_t)N) { viol("unknown-record", "record %u/%u was never produced", p, s); break; } if (seen[(size_t)p * N + s]++) { viol("duplicate", "record %u/%u consumed twice", p, s); break; } }
		}
		if (!abort_hist) { long long miss = 0, k; for (k = 0; k < total; k++) if (!seen[k]) miss++; if (miss) viol("lost", "%lld of %lld produced records never consumed", miss, total); }
		free(seen);
	}
	{ pssize u = p_shm_buffer_get_used_space(owner, NULL); if (!abort_hist && u != 0) viol("used-space", "buffer not empty after all records consumed: %zd", (ssize_t)u); }
	p_shm_buffer_free(owner);
	printf("{\"ev\":\"conc\",\"mode\":\"%s\",\"P\":%d,\"C\":%d,\"N\":%lld,\"cap\":%zu,\"consumed\":%lld,\"full_retries\":%lld,\"empty_reads\":%lld}\n", procs ? "procs" : "threads", P, C, N, cap,
	       (long long)sh->consumed, (long long)sh->full_retries, (long long)sh->empty_reads);
	munmap((void *)sh, shlen);
}

int main(int argc, char **argv) {
	vh_rng r; double t0 = vh_now(); const char *mode = vh_arg(argc, argv, "--mode", "seq"); long long ops = vh_argi(argc, argv, "--ops", 20000); int i;
	uint64_t seed = (uint64_t)vh_argi(argc, argv, "--seed", 1);
	vh_seed(&r, seed * 1099511628211ULL + mode[0]);
	snprintf(prefix, sizeof prefix, "vfC08-%d-%llu", (int)getpid(), (unsigned long long)seed);
	p_libsys_init();
	if (!strcmp(mode, "seq")) run_seq(&r, ops, 0);
	else if (!strcmp(mode, "smaller")) run_seq(&r, ops, 1);
	else {
		int procs = !strcmp(mode, "procs"); int P = (int)vh_argi(argc, argv, "--P", 4), C = (int)vh_argi(argc, argv, "--C", 2); long long N = vh_argi(argc, argv, "--N", 20000);
		int rounds = (int)vh_argi(argc, argv, "--rounds", 3);
		for (i = 0; i < rounds && vh_nviol < vh_max_viol; i++) {
			static const size_t caps[] = { REC, REC + 1, 2 * REC - 1, 3 * REC, 100, 1000, 4080 };
			abort_hist = 0;
			run_conc(&r, procs, P, C, N / rounds + 1, caps[vh_below(&r, 7)]);
		}
	}
	p_libsys_shutdown();
	printf("{\"ev\":\"stats\",\"mode\":\"%s\",\"ops\":%lld,\"buffers\":%lld,\"writes_ok\":%lld,\"writes_refused\":%lld,\"reads\":%lld,\"reads_empty\":%lld,\"wrap_writes\":%lld,\"wrap_reads\":%lld,"
	       "\"clears\":%lld,\"handles_closed_and_reopened\":%lld,\"segment_checks\":%lld,\"len_classes\":[", mode, st_ops, st_bufs, st_w_ok, st_w_full, st_r, st_r_empty, st_wrap_w, st_wrap_r, st_clear, st_reopens, st_seg_checks);
	for (i = 0; i < 10; i++) printf("%s%lld", i ? "," : "", st_lenclass[i]);
	printf("],\"viol\":%d,\"wall\":%.2f}\n", vh_nviol, vh_now() - t0);
	return 0;
}

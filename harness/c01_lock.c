/* c01_lock: mutual exclusion, visibility and trylock semantics of PMutex and PSpinLock (C01).
 * shadow mode (default): atomic owner word exchanged inside the section + record consistency + counter equality.
 * HB_MODE (TSan builds): the section touches plain memory only; ThreadSanitizer is the exclusion/visibility oracle. */
#include <plibsys.h>
#include <pthread.h>
#include <semaphore.h>
#include <sched.h>
#include "vh.h"

#define MAXT 64
#define K 6
typedef struct { int kind; PMutex *m; PSpinLock *s; } Lk;
static const char *KN[2] = { "mutex", "spinlock" };
static const char *scen = "-"; static int cur_kind;

static void viol(const char *symptom, const char *fmt, ...) __attribute__((format(printf, 2, 3)));
static void viol(const char *symptom, const char *fmt, ...) {
	char key[200], buf[1000]; va_list ap;
	va_start(ap, fmt); vsnprintf(buf, sizeof buf, fmt, ap); va_end(ap);
	snprintf(key, sizeof key, "lock=%s model=%s scenario=%s symptom=%s", KN[cur_kind], VH_MODEL, scen, symptom);
	if (vh_nviol < vh_max_viol) vh_viol("C01", key, "%s", buf);
}

static int lk_new(Lk *l, int kind) { l->kind = kind; l->m = NULL; l->s = NULL; if (kind == 0) l->m = p_mutex_new(); else l->s = p_spinlock_new(); return l->m || l->s; }
static pboolean lk_lock(Lk *l) { return l->kind == 0 ? p_mutex_lock(l->m) : p_spinlock_lock(l->s); }
static pboolean lk_try(Lk *l) { return l->kind == 0 ? p_mutex_trylock(l->m) : p_spinlock_trylock(l->s); }
static pboolean lk_unlock(Lk *l) { return l->kind == 0 ? p_mutex_unlock(l->m) : p_spinlock_unlock(l->s); }
static void lk_free(Lk *l) { if (l->kind == 0) p_mutex_free(l->m); else p_spinlock_free(l->s); }

/* protected state per lock */
typedef struct {
	Lk lk;
#ifdef HB_MODE
	int owner;
#else
	volatile int owner;
#endif
	long long seq; unsigned long long rec[K]; int last;
	char pad[64];
} Obj;
static Obj objs[3]; static int nobj;

typedef struct { int id, T; long long N; vh_rng r; long long acq, try_true, try_false; long long hand[MAXT + 1]; long long excl_bad, rec_bad, unlock_bad; int yield_in; } W;
static W ws[MAXT];
static pthread_barrier_t bar;
static volatile long long progress;
static volatile int spinning_now, max_spinning;

static unsigned long long recval(long long seq, int i) { return (unsigned long long)seq * 0x9E3779B97F4A7C15ULL + (unsigned long long)i * 0x100000001B3ULL; }

static void section(W *w, Obj *o) {
	int i, me = w->id + 1;
#ifdef HB_MODE
	if (o->owner != 0) w->excl_bad++;
	o->owner = me;
#else
	if (__atomic_exchange_n(&o->owner, me, __ATOMIC_RELAXED) != 0) w->excl_bad++;
#endif
	for (i = 0; i < K; i++) if (o->rec[i] != recval(o->seq, i)) { w->rec_bad++; break; }
	o->seq++; if ((o->seq & 63) == 0) __atomic_add_fetch(&progress, 1, __ATOMIC_RELAXED);
	w->hand[o->last]++; o->last = me;
	if (w->yield_in && vh_chance(&w->r, 3)) sched_yield();
	else { int spin = (int)vh_below(&w->r, 60); volatile int x = 0; while (spin--) x++; }
	for (i = 0; i < K; i++) o->rec[i] = recval(o->seq, i);
#ifdef HB_MODE
	if (o->owner != me) w->excl_bad++;
	o->owner = 0;
#else
	if (__atomic_exchange_n(&o->owner, 0, __ATOMIC_RELAXED) != me) w->excl_bad++;
#endif
}

static void *worker(void *a) {
	W *w = a; long long i;
	pthread_barrier_wait(&bar);
	for (i = 0; i < w->N; i++) {
		Obj *o = &objs[vh_below(&w->r, (uint64_t)nobj)];
		if (vh_chance(&w->r, 30)) {
			if ((i & 255) == 0) __atomic_add_fetch(&progress, 1, __ATOMIC_RELAXED);
			if (lk_try(&o->lk)) { w->try_true++; w->acq++; section(w, o); if (!lk_unlock(&o->lk)) w->unlock_bad++; } else w->try_false++;
		} else {
			int s = __atomic_add_fetch(&spinning_now, 1, __ATOMIC_RELAXED);
#ifndef HB_MODE
			if (s > max_spinning) max_spinning = s;
#else
			(void)s;
#endif
			if (!lk_lock(&o->lk)) { w->unlock_bad++; __atomic_sub_fetch(&spinning_now, 1, __ATOMIC_RELAXED); continue; }
			__atomic_sub_fetch(&spinning_now, 1, __ATOMIC_RELAXED);
			w->acq++; section(w, o); if (!lk_unlock(&o->lk)) w->unlock_bad++;
		}
		if (vh_chance(&w->r, 10)) { int spin = (int)vh_below(&w->r, 300); volatile int x = 0; while (spin--) x++; }
	}
	return NULL;
}

/* progress watchdog: a real deadlock shows as NO acquisition for a long time; a slow run keeps progressing */
static volatile int wd_stop; static int wd_limit_s = 60;
static void *wd_fn(void *a) {
	long long last = -1; int idle = 0; (void)a;
	while (!__atomic_load_n(&wd_stop, __ATOMIC_RELAXED)) { sleep(1); { long long p = __atomic_load_n(&progress, __ATOMIC_RELAXED); if (p != last) { last = p; idle = 0; continue; } } if (0) {} else if (++idle >= wd_limit_s) { viol("no-progress", "no lock acquisition, trylock result or handshake step for %d s: a lock call never returned", wd_limit_s); fflush(stdout); _exit(0); } }
	return NULL;
}
static long long st_acq, st_try_true, st_try_false, st_handoff_cells, st_handoff_filled, st_phases, st_handshakes, st_single, st_quiescent;
static int st_max_spin;

static void run_stress(int kind, int T, int L, long long N, uint64_t seed, int yield_in) {
	pthread_t th[MAXT]; int i, j; long long acq = 0; long long tot_seq = 0; static long long handm[MAXT + 1][MAXT + 1];
	cur_kind = kind; scen = "stress"; nobj = L; spinning_now = 0; max_spinning = 0;
	memset(handm, 0, sizeof handm);
	for (i = 0; i < L; i++) { if (!lk_new(&objs[i].lk, kind)) VH_DIE("lock new"); objs[i].owner = 0; objs[i].seq = 0; objs[i].last = 0; for (j = 0; j < K; j++) objs[i].rec[j] = recval(0, j); }
	pthread_barrier_init(&bar, NULL, (unsigned)T);
	for (i = 0; i < T; i++) { memset(&ws[i], 0, sizeof ws[i]); ws[i].id = i; ws[i].T = T; ws[i].N = N; ws[i].yield_in = yield_in; vh_seed(&ws[i].r, seed * 131 + (uint64_t)i); pthread_create(&th[i], NULL, worker, &ws[i]); }
	for (i = 0; i < T; i++) pthread_join(th[i], NULL);
	pthread_barrier_destroy(&bar);
	for (i = 0; i < T; i++) {
		acq += ws[i].acq; st_try_true += ws[i].try_true; st_try_false += ws[i].try_false;
		if (ws[i].excl_bad) viol("two-holders", "thread %d found another holder inside its critical section %lld times (T=%d)", i, ws[i].excl_bad, T);
		if (ws[i].rec_bad) viol("stale-or-torn-record", "thread %d found a record written by the previous holder inconsistent %lld times", i, ws[i].rec_bad);
		if (ws[i].unlock_bad) viol("lock-call-failed", "lock/unlock returned FALSE %lld times", ws[i].unlock_bad);
		for (j = 0; j <= T; j++) handm[j][i + 1] += ws[i].hand[j];
	}
	for (i = 0; i < L; i++) tot_seq += objs[i].seq;
	if (tot_seq != acq) viol("lost-update", "protected counters sum to %lld after %lld acquisitions", tot_seq, acq);
	st_acq += acq; st_phases++; if (max_spinning > st_max_spin) st_max_spin = max_spinning;
	for (i = 1; i <= T; i++) for (j = 1; j <= T; j++) { st_handoff_cells++; if (handm[i][j]) st_handoff_filled++; }
	/* quiescent point: nobody holds anything -> trylock must succeed */
	scen = "quiescent-trylock";
	for (i = 0; i < L; i++) { st_quiescent++; if (!lk_try(&objs[i].lk)) viol("trylock-false-on-free-lock", "trylock on a free, uncontended lock returned FALSE"); else lk_unlock(&objs[i].lk); lk_free(&objs[i].lk); }
}

/* trylock handshake: never TRUE while held, never blocks; TRUE when free */
static sem_t s_held, s_ack, s_freed, s_ack2; static Lk hlk; static long long hs_rounds; static volatile long long hs_true_while_held, hs_false_when_free;
static void *holder_fn(void *a) { long long i; (void)a; for (i = 0; i < hs_rounds; i++) { lk_lock(&hlk); sem_post(&s_held); sem_wait(&s_ack); lk_unlock(&hlk); sem_post(&s_freed); sem_wait(&s_ack2); } return NULL; }
static void *prober_fn(void *a) {
	long long i; (void)a;
	for (i = 0; i < hs_rounds; i++) {
		sem_wait(&s_held); __atomic_add_fetch(&progress, 1, __ATOMIC_RELAXED);
		if (lk_try(&hlk)) { hs_true_while_held++; lk_unlock(&hlk); }
		sem_post(&s_ack);
		sem_wait(&s_freed);
		if (!lk_try(&hlk)) hs_false_when_free++; else lk_unlock(&hlk);
		sem_post(&s_ack2);
	}
	return NULL;
}
static void run_handshake(int kind, long long rounds) {
	pthread_t h, p;
	cur_kind = kind; scen = "trylock-handshake"; hs_rounds = rounds; hs_true_while_held = hs_false_when_free = 0;
	if (!lk_new(&hlk, kind)) VH_DIE("lock new");
	sem_init(&s_held, 0, 0); sem_init(&s_ack, 0, 0); sem_init(&s_freed, 0, 0); sem_init(&s_ack2, 0, 0);
	printf("{\"ev\":\"phase\",\"name\":\"trylock-handshake\",\"lock\":\"%s\"}\n", KN[kind]); fflush(stdout);
	pthread_create(&h, NULL, holder_fn, NULL); pthread_create(&p, NULL, prober_fn, NULL);
	pthread_join(h, NULL); pthread_join(p, NULL);
	if (hs_true_while_held) viol("trylock-true-while-held", "trylock returned TRUE %lld times while another thread held the lock", (long long)hs_true_while_held);
	if (hs_false_when_free) viol("trylock-false-on-free-lock", "trylock returned FALSE %lld times on a free lock with no other contender", (long long)hs_false_when_free);
	st_handshakes += rounds; lk_free(&hlk);
	printf("{\"ev\":\"phase-done\",\"name\":\"trylock-handshake\"}\n"); fflush(stdout);
}

/* long hold: the holder keeps the lock for hold_ms while W waiters sit inside lock(); nobody may get in early */
static Lk lh_lk; static volatile int lh_inside, lh_early, lh_release;
static void *lh_waiter(void *a) { (void)a; lk_lock(&lh_lk); if (!__atomic_load_n(&lh_release, __ATOMIC_SEQ_CST)) __atomic_add_fetch(&lh_early, 1, __ATOMIC_SEQ_CST); __atomic_add_fetch(&lh_inside, 1, __ATOMIC_SEQ_CST); __atomic_add_fetch(&progress, 1, __ATOMIC_RELAXED); lk_unlock(&lh_lk); return NULL; }
static long long st_long_holds;
static void run_long_hold(int kind, int W, int hold_ms) {
	pthread_t th[8]; int i, t;
	cur_kind = kind; scen = "long-hold"; lh_inside = lh_early = lh_release = 0;
	if (!lk_new(&lh_lk, kind)) VH_DIE("lock new");
	lk_lock(&lh_lk);
	for (i = 0; i < W; i++) pthread_create(&th[i], NULL, lh_waiter, NULL);
	for (t = 0; t < hold_ms / 10; t++) { usleep(10000); __atomic_add_fetch(&progress, 1, __ATOMIC_RELAXED); }
	if (__atomic_load_n(&lh_inside, __ATOMIC_SEQ_CST)) viol("two-holders", "%d waiter(s) entered the critical section while the lock had been held continuously for %d ms by another thread", lh_inside, hold_ms);
	__atomic_store_n(&lh_release, 1, __ATOMIC_SEQ_CST);
	lk_unlock(&lh_lk);
	for (i = 0; i < W; i++) pthread_join(th[i], NULL);
	if (lh_early) viol("two-holders", "%d lock() calls returned before the holder released (hold %d ms, %d waiters)", lh_early, hold_ms, W);
	lk_free(&lh_lk); st_long_holds++;
}

static long long st_extra_unlocks;
static void *foreign_unlock(void *a) { lk_unlock((Lk *)a); return NULL; }
static void run_single(int kind, long long n) {
	Lk l; long long i;
	cur_kind = kind; scen = "single-thread";
	if (!lk_new(&l, kind)) VH_DIE("lock new");
	for (i = 0; i < n && vh_nviol < vh_max_viol; i++) {
		if (!lk_try(&l)) { viol("trylock-false-on-free-lock", "single-threaded trylock on a free lock returned FALSE (iteration %lld)", i); break; }
		if (lk_try(&l)) { viol("trylock-true-while-held", "trylock returned TRUE while the lock was held (by the same thread)"); lk_unlock(&l); }
		if (!lk_unlock(&l)) viol("lock-call-failed", "unlock returned FALSE");
		if (!lk_lock(&l) || !lk_unlock(&l)) viol("lock-call-failed", "lock/unlock returned FALSE");
		/* pspinlock.h: with a lock-free atomic model "any thread can unlock any spinlock. It is also safe to call this routine on an unlocked
		 * spinlock" - the lock stays free and usable afterwards */
		if (kind == 1 && p_atomic_is_lock_free() && i % 7 == 3) {
			scen = "unlock-of-unlocked-spinlock";
			(void)lk_unlock(&l); st_extra_unlocks++;
			if (!lk_try(&l)) { viol("trylock-false-on-free-lock", "after p_spinlock_unlock on an unlocked spinlock, trylock on the free lock returned FALSE (iteration %lld)", i); break; }
			if (lk_try(&l)) { viol("trylock-true-while-held", "after an extra unlock, trylock returned TRUE while the lock was held"); lk_unlock(&l); }
			lk_unlock(&l);
			if (i % 700 == 3) {     /* owner locks, another thread unlocks, owner unlocks as well: one unlock more than locks */
				pthread_t t; lk_lock(&l); pthread_create(&t, NULL, foreign_unlock, &l); pthread_join(t, NULL); (void)lk_unlock(&l); st_extra_unlocks++;
				if (!lk_try(&l)) { viol("trylock-false-on-free-lock", "after an unlock by another thread followed by the owner's unlock, trylock on the free lock returned FALSE"); break; }
				lk_unlock(&l);
			}
			scen = "single-thread";
		}
		st_single++;
	}
	lk_free(&l);
}

/* "from the moment a thread's lock call returns until that thread's unlock": a holder that terminates without unlocking has not unlocked.
 * (Not run under ThreadSanitizer, which reports a thread that ends with a lock held as a finding of its own.) */
static long long st_owner_exit;
static void *lock_and_exit(void *a) { lk_lock((Lk *)a); return NULL; }
static void run_owner_exit(int kind) {
#if !defined(__SANITIZE_THREAD__)
	Lk *l = malloc(sizeof *l); pthread_t t; int i, got = 0;
	cur_kind = kind; scen = "holder-terminated-without-unlock";
	if (!lk_new(l, kind)) VH_DIE("lock new");
	pthread_create(&t, NULL, lock_and_exit, l); pthread_join(t, NULL);
	for (i = 0; i < 50 && !got; i++) { got = lk_try(l); usleep(2000); }
	if (got) viol("trylock-true-while-held", "trylock returned TRUE although the thread that holds the lock never unlocked it (it terminated)");
	st_owner_exit++;
	/* the lock stays locked for ever: neither unlocked from here nor destroyed */
#else
	(void)kind;
#endif
}

int main(int argc, char **argv) {
	double t0 = vh_now(); uint64_t seed = (uint64_t)vh_argi(argc, argv, "--seed", 1); long long N = vh_argi(argc, argv, "--n", 20000), hs = vh_argi(argc, argv, "--handshakes", 2000); int kind, ti;
	const char *tl = vh_arg(argc, argv, "--threads", "2,4,8,16"); int only = (int)vh_argi(argc, argv, "--kind", -1); pthread_t wd;
	const char *stl = vh_arg(argc, argv, "--spin-threads", tl); long long SN = vh_argi(argc, argv, "--spin-n", N);
	wd_limit_s = (int)vh_argi(argc, argv, "--stall", 60);
	p_libsys_init();
	pthread_create(&wd, NULL, wd_fn, NULL);
	for (kind = 0; kind < 2; kind++) {
		char tmp[128], *tok, *sv; if (only >= 0 && kind != only) continue;
		run_single(kind, 20000);
		run_owner_exit(kind);
		run_handshake(kind, hs);
		{ int lh = (int)vh_argi(argc, argv, "--long-hold-ms", 0); if (lh) { run_long_hold(kind, 1, lh); if (lh >= 1000) run_long_hold(kind, 3, lh * 3); } }
		snprintf(tmp, sizeof tmp, "%s", kind == 1 ? stl : tl); if (kind == 1) N = SN;
		for (tok = strtok_r(tmp, ",", &sv), ti = 0; tok; tok = strtok_r(NULL, ",", &sv), ti++) {
			int T = atoi(tok); if (T < 1 || T > MAXT) continue;
			run_stress(kind, T, 1, N / T + 100, seed + (uint64_t)ti, 0);
			run_stress(kind, T, 3, N / T + 100, seed + 77 + (uint64_t)ti, 1);
		}
	}
	p_libsys_shutdown();
	printf("{\"ev\":\"stats\",\"model\":\"%s\",\"acquisitions\":%lld,\"trylock_true\":%lld,\"trylock_false\":%lld,\"phases\":%lld,\"handoff_cells\":%lld,\"handoff_filled\":%lld,\"max_waiting\":%d,"
	       "\"long_holds\":%lld,\"handshakes\":%lld,\"single_thread_iters\":%lld,\"unlocks_of_unlocked_spinlock\":%lld,\"quiescent_trylocks\":%lld,\"viol\":%d,\"wall\":%.2f}\n",
	       VH_MODEL, st_acq, st_try_true, st_try_false, st_phases, st_handoff_cells, st_handoff_filled, st_max_spin, st_long_holds, st_handshakes, st_single, st_extra_unlocks, st_quiescent, vh_nviol, vh_now() - t0);
	return 0;
}

/* ipc_agent: line-command agent for the multi-process monitors of C06 (PSemaphore) and C07 (PShm).
 * One command per line on stdin, one answer line on stdout (asynchronous lines start with "bg").
 * Linked with wrap_sys.c: `crashat N PHASE` arms SIGKILL before (0) / after (1) the N-th wrapped IPC libc call. */
#include <plibsys.h>
#include <pthread.h>
#include <sys/mman.h>
#include <fcntl.h>
#include <errno.h>
#include "vh.h"
#include "wrap_sys.h"

#define MAXH 32
static PSemaphore *sem[MAXH]; static PShm *shm[MAXH];
static pthread_mutex_t outmu = PTHREAD_MUTEX_INITIALIZER;
static void say(const char *fmt, ...) { va_list ap; va_start(ap, fmt); pthread_mutex_lock(&outmu); vprintf(fmt, ap); fputc('\n', stdout); fflush(stdout); pthread_mutex_unlock(&outmu); va_end(ap); }

typedef struct { int hid; char tag[32]; int kind; } Bg;
static void *bg_fn(void *a) {
	Bg *b = a; PError *err = NULL; pboolean ok;
	ok = b->kind == 0 ? p_semaphore_acquire(sem[b->hid], &err) : p_shm_lock(shm[b->hid], &err);
	say("bg %s %s", b->tag, ok ? "acquired" : "failed");
	p_error_free(err); free(b); return NULL;
}

/* k-exclusion / lock workload counters live in a file-backed shared page owned by the orchestrator */
typedef struct { volatile int cur, max, over, entries; volatile long long counter; volatile int owner; volatile int owner_bad; } Shared;
static Shared *shared_map(const char *path) { int fd = open(path, O_RDWR); Shared *s; if (fd < 0) return NULL; s = mmap(NULL, 4096, PROT_READ | PROT_WRITE, MAP_SHARED, fd, 0); close(fd); return s == MAP_FAILED ? NULL : s; }
typedef struct { int hid, iters, k; Shared *sh; } KArg;
static void *kexcl_fn(void *a) {
	KArg *g = a; int i;
	for (i = 0; i < g->iters; i++) {
		int c;
		if (!p_semaphore_acquire(sem[g->hid], NULL)) { __sync_fetch_and_add(&g->sh->over, 1000); break; }
		c = __sync_add_and_fetch(&g->sh->cur, 1); if (c > g->k) __sync_fetch_and_add(&g->sh->over, 1);
		{ int m; do { m = g->sh->max; } while (c > m && !__sync_bool_compare_and_swap(&g->sh->max, m, c)); }
		__sync_fetch_and_add(&g->sh->entries, 1);
		if ((i & 3) == 0) sched_yield();
		__sync_sub_and_fetch(&g->sh->cur, 1);
		p_semaphore_release(sem[g->hid], NULL);
	}
	return NULL;
}

static unsigned long long fnv(const unsigned char *p, size_t n) { unsigned long long h = 1469598103934665603ULL; size_t i; for (i = 0; i < n; i++) h = (h ^ p[i]) * 1099511628211ULL; return h; }

int main(void) {
	char *line = NULL; size_t cap = 0; ssize_t n;
	p_libsys_init();
	setvbuf(stdout, NULL, _IOLBF, 0);
	say("ready %d", (int)getpid());
	while ((n = getline(&line, &cap, stdin)) > 0) {
		char cmd[32], name[1024]; int hid = 0, a1 = 0, a2 = 0; long long l1 = 0, l2 = 0, l3 = 0; PError *err = NULL; char *args;
		if (line[n - 1] == '\n') line[n - 1] = 0;
		if (sscanf(line, "%31s", cmd) != 1) continue;
		args = line + strlen(cmd);
		if (!strcmp(cmd, "at")) {          /* at <monotonic_ns> <command...> : spin until the instant, then run the command */
			unsigned long long t; int off = 0; if (sscanf(args, "%llu %n", &t, &off) < 1) { say("err"); continue; }
			while (vh_now_ns() < t) ;
			memmove(line, args + off, strlen(args + off) + 1); if (sscanf(line, "%31s", cmd) != 1) continue; args = line + strlen(cmd);
		}
		if (!strcmp(cmd, "quit")) break;
		else if (!strcmp(cmd, "now")) say("ok %llu", (unsigned long long)vh_now_ns());
		else if (!strcmp(cmd, "crashat")) { sscanf(args, "%lld %d", &l1, &a1); w_crash_at(w_total_calls() + l1, a1); say("ok"); }
		else if (!strcmp(cmd, "calls")) say("ok %ld", w_total_calls());
		else if (!strcmp(cmd, "inject")) { /* inject <pct>: EINTR on that share of sem_wait / sem_open / shm_open calls (each retried transparently by a correct library) */
			sscanf(args, "%d", &a1); w_plan(W_SEM_WAIT, a1 ? WM_RANDOM : WM_OFF, a1, 1, WK_EINTR, (uint64_t)getpid()); w_plan(W_SEM_OPEN, a1 ? WM_RANDOM : WM_OFF, a1, 1, WK_EINTR, (uint64_t)getpid() * 3); w_plan(W_SHM_OPEN, a1 ? WM_RANDOM : WM_OFF, a1, 1, WK_EINTR, (uint64_t)getpid() * 7); say("ok"); }
		else if (!strcmp(cmd, "nofd")) { sscanf(args, "%d", &a1); w_fd_exhausted = a1; say("ok"); }      /* nofd <0|1>: descriptor table full */
		else if (!strcmp(cmd, "injected")) say("ok %ld", w_injected(W_SEM_WAIT) + w_injected(W_SEM_OPEN) + w_injected(W_SHM_OPEN));
		else if (!strcmp(cmd, "log")) { int i; char b[4096]; size_t o = 0; sscanf(args, "%d", &a1); if (a1) { w_log_n = 0; w_log_on = 1; say("ok"); } else { w_log_on = 0; for (i = 0; i < w_log_n && i < 4096 && o + 24 < sizeof b; i++) o += (size_t)snprintf(b + o, sizeof b - o, "%s%s", i ? "," : "", w_names[w_log_ids[i]]); b[o] = 0; say("ok %s", b); } }
		/* ---------------- semaphore ---------------- */
		else if (!strcmp(cmd, "new")) {
			char mode;
			if (sscanf(args, "%d %1023s %d %c", &hid, name, &a1, &mode) != 4 || hid < 0 || hid >= MAXH) { say("err"); continue; }
			sem[hid] = p_semaphore_new(name, a1, mode == 'c' ? P_SEM_ACCESS_CREATE : P_SEM_ACCESS_OPEN, &err);
			if (sem[hid]) say("ok"); else say("fail %d %d", err ? p_error_get_code(err) : 0, err ? p_error_get_native_code(err) : 0);
		}
		else if (!strcmp(cmd, "acq")) { sscanf(args, "%d", &hid); say(p_semaphore_acquire(sem[hid], &err) ? "ok" : "fail %d %d", err ? p_error_get_code(err) : 0, err ? p_error_get_native_code(err) : 0); }
		else if (!strcmp(cmd, "rel")) { sscanf(args, "%d", &hid); say(p_semaphore_release(sem[hid], &err) ? "ok" : "fail %d %d", err ? p_error_get_code(err) : 0, err ? p_error_get_native_code(err) : 0); }
		else if (!strcmp(cmd, "own")) { sscanf(args, "%d", &hid); p_semaphore_take_ownership(sem[hid]); say("ok"); }
		else if (!strcmp(cmd, "free")) { sscanf(args, "%d", &hid); p_semaphore_free(sem[hid]); sem[hid] = NULL; say("ok"); }
		else if (!strcmp(cmd, "acq_bg") || !strcmp(cmd, "lock_bg")) { Bg *b = calloc(1, sizeof *b); pthread_t t; sscanf(args, "%d %31s", &b->hid, b->tag); b->kind = cmd[0] == 'a' ? 0 : 1; pthread_create(&t, NULL, bg_fn, b); pthread_detach(t); say("ok"); }
		else if (!strcmp(cmd, "shmchurn")) {     /* shmchurn <name> <iters> <ownpct>: p_shm_new(4096) / [take_ownership] / touch / free in a loop */
			int iters, ownpct, i, fails = 0; unsigned x = (unsigned)getpid() * 2246822519u;
			if (sscanf(args, "%1023s %d %d", name, &iters, &ownpct) != 3) { say("err"); continue; }
			for (i = 0; i < iters; i++) {
				PShm *sm = p_shm_new(name, 4096, P_SHM_ACCESS_READWRITE, NULL);
				if (!sm) { fails++; continue; }              /* the name vanished or was half-created at that moment: allowed to fail */
				x = x * 1103515245u + 12345u;
				if ((int)((x >> 16) % 100) < ownpct) p_shm_take_ownership(sm);
				if (p_shm_get_size(sm) >= 8) ((volatile char *)p_shm_get_address(sm))[7] = (char)i;
				p_shm_free(sm);
			}
			say("ok %d %d", iters, fails);
		}
		else if (!strcmp(cmd, "churn")) {     /* churn <name> <iters> <ownpct>: open(OPEN,1) / [take_ownership] / acquire / release / free in a loop */
			int iters, ownpct, i, fails = 0; unsigned x = (unsigned)getpid() * 2654435761u;
			if (sscanf(args, "%1023s %d %d", name, &iters, &ownpct) != 3) { say("err"); continue; }
			for (i = 0; i < iters; i++) {
				PSemaphore *sm = p_semaphore_new(name, 1, P_SEM_ACCESS_OPEN, NULL);
				if (!sm) { fails++; continue; }              /* the name vanished between the two sem_open calls: allowed to fail */
				x = x * 1103515245u + 12345u;
				if ((int)((x >> 16) % 100) < ownpct) p_semaphore_take_ownership(sm);
				if (!p_semaphore_acquire(sm, NULL)) { say("fail acquire"); break; }
				p_semaphore_release(sm, NULL);
				p_semaphore_free(sm);
			}
			if (i == iters) say("ok %d %d", iters, fails);
		}
		else if (!strcmp(cmd, "kexcl")) {      /* kexcl <hid> <threads> <iters> <k> <sharedfile> */
			char path[128]; int T, i; pthread_t th[32]; KArg g;
			if (sscanf(args, "%d %d %d %d %127s", &hid, &T, &a1, &a2, path) != 5 || T > 32) { say("err"); continue; }
			g.hid = hid; g.iters = a1; g.k = a2; g.sh = shared_map(path); if (!g.sh) { say("err map"); continue; }
			for (i = 0; i < T; i++) pthread_create(&th[i], NULL, kexcl_fn, &g);
			for (i = 0; i < T; i++) pthread_join(th[i], NULL);
			munmap((void *)g.sh, 4096); say("ok");
		}
		/* ---------------- shared memory ---------------- */
		else if (!strcmp(cmd, "shmnew")) {
			char perm;
			if (sscanf(args, "%d %1023s %lld %c", &hid, name, &l1, &perm) != 4 || hid < 0 || hid >= MAXH) { say("err"); continue; }
			shm[hid] = p_shm_new(name, (psize)l1, perm == 'r' ? P_SHM_ACCESS_READONLY : P_SHM_ACCESS_READWRITE, &err);
			if (shm[hid]) say("ok %llu %p", (unsigned long long)p_shm_get_size(shm[hid]), p_shm_get_address(shm[hid])); else say("fail %d %d", err ? p_error_get_code(err) : 0, err ? p_error_get_native_code(err) : 0);
		}
		else if (!strcmp(cmd, "shmfree")) { sscanf(args, "%d", &hid); p_shm_free(shm[hid]); shm[hid] = NULL; say("ok"); }
		else if (!strcmp(cmd, "shmown")) { sscanf(args, "%d", &hid); p_shm_take_ownership(shm[hid]); say("ok"); }
		else if (!strcmp(cmd, "shmlock")) { sscanf(args, "%d", &hid); say(p_shm_lock(shm[hid], &err) ? "ok" : "fail %d %d", err ? p_error_get_code(err) : 0, err ? p_error_get_native_code(err) : 0); }
		else if (!strcmp(cmd, "shmunlock")) { sscanf(args, "%d", &hid); say(p_shm_unlock(shm[hid], &err) ? "ok" : "fail %d %d", err ? p_error_get_code(err) : 0, err ? p_error_get_native_code(err) : 0); }
		else if (!strcmp(cmd, "shmsize")) { sscanf(args, "%d", &hid); say("ok %llu", (unsigned long long)p_shm_get_size(shm[hid])); }
		else if (!strcmp(cmd, "shmwrite")) {   /* shmwrite <hid> <off> <len> <seed>: bytes (seed*131 + i*7 + off) & 255 */
			unsigned char *p; long long i; sscanf(args, "%d %lld %lld %lld", &hid, &l1, &l2, &l3); p = p_shm_get_address(shm[hid]);
			for (i = 0; i < l2; i++) p[l1 + i] = (unsigned char)(l3 * 131 + (l1 + i) * 7); say("ok");
		}
		else if (!strcmp(cmd, "shmsum")) {     /* digest of bytes [off, off+len) */
			sscanf(args, "%d %lld %lld", &hid, &l1, &l2); say("ok %016llx", fnv((unsigned char *)p_shm_get_address(shm[hid]) + l1, (size_t)l2));
		}
		else if (!strcmp(cmd, "shmbyte")) { sscanf(args, "%d %lld", &hid, &l1); say("ok %d", ((unsigned char *)p_shm_get_address(shm[hid]))[l1]); }
		else if (!strcmp(cmd, "shmtouch")) {   /* read every byte below get_size (accessibility) */
			unsigned char *p; psize sz, i; unsigned long long s = 0; sscanf(args, "%d", &hid); p = p_shm_get_address(shm[hid]); sz = p_shm_get_size(shm[hid]); for (i = 0; i < sz; i++) s += p[i]; say("ok %llu", s);
		}
		else if (!strcmp(cmd, "shmwork")) {    /* shmwork <hid> <iters>: locked non-atomic read-modify-write of a counter + owner word in the segment */
			Shared *s; int i; sscanf(args, "%d %d", &hid, &a1); s = p_shm_get_address(shm[hid]);
			for (i = 0; i < a1; i++) {
				long long v;
				if (!p_shm_lock(shm[hid], NULL)) { say("fail lock"); break; }
				if (s->owner != 0) s->owner_bad++;
				s->owner = (int)getpid(); v = s->counter; if ((i & 7) == 0) sched_yield(); s->counter = v + 1;
				if (s->owner != (int)getpid()) s->owner_bad++;
				s->owner = 0;
				if (!p_shm_unlock(shm[hid], NULL)) { say("fail unlock"); break; }
			}
			if (i == a1) say("ok");
		}
		else if (!strcmp(cmd, "shmcounter")) { Shared *s; sscanf(args, "%d", &hid); s = p_shm_get_address(shm[hid]); say("ok %lld %d", s->counter, s->owner_bad); }
		else if (!strcmp(cmd, "maps")) {       /* number of mappings of /dev/shm objects and the length of the one at the handle's address */
			FILE *f = fopen("/proc/self/maps", "r"); char l[512]; int cnt = 0; unsigned long long want = 0, len = 0, a, b;
			if (sscanf(args, "%d", &hid) == 1 && hid >= 0 && shm[hid]) want = (unsigned long long)(uintptr_t)p_shm_get_address(shm[hid]);
			while (f && fgets(l, sizeof l, f)) if (strstr(l, "/dev/shm/") && sscanf(l, "%llx-%llx", &a, &b) == 2) { cnt++; if (a == want) len = b - a; }
			if (f) fclose(f); say("ok %d %llu", cnt, len);
		}
		else say("err unknown %s", cmd);
		p_error_free(err);
	}
	p_libsys_shutdown();
	return 0;
}

/* Shared by ini_agent.c and ini_fuzz.c: parse a file and check object consistency / dump content (C16). */
#ifndef INI_COMMON_H
#define INI_COMMON_H
#include <plibsys.h>
#include "vh.h"

static void ini_hex(FILE *f, const char *s) {
	fputc('"', f); for (; *s; s++) fprintf(f, "%02x", (unsigned char)*s); fputc('"', f);
}

/* a name that is not in the given list (a coverage-guided fuzzer learns fixed probe names through strcmp tracing) */
static void ini_absent_name(PList *l, char *out, size_t cap) {
	PList *c; snprintf(out, cap, "__vf_missing__");
	for (;;) { int hit = 0; for (c = l; c; c = c->next) if (c->data && !strcmp(c->data, out)) hit = 1; if (!hit || strlen(out) + 2 >= cap) return; strcat(out, "_"); }
}

/* Robustness oracle: every listed section has >=1 key, every listed key exists and has a retrievable value.
 * Returns NULL if consistent, else a static reason string.  If `dump` is non-NULL writes the content as JSON. */
static const char *ini_check_file(const char *path, FILE *dump, long long *nsec, long long *nkeys) {
	PIniFile *ini = p_ini_file_new(path); PList *secs, *s; const char *bad = NULL; int first = 1;
	if (!ini) return "p_ini_file_new failed";
	if (p_ini_file_is_parsed(ini)) bad = "is_parsed before parse";
	if (!p_ini_file_parse(ini, NULL)) { p_ini_file_free(ini); return "parse failed"; }
	if (!p_ini_file_is_parsed(ini)) bad = "not parsed after successful parse";
	if (!p_ini_file_parse(ini, NULL)) bad = "second parse failed";
	secs = p_ini_file_sections(ini);
	if (dump) fputs("{\"sections\":[", dump);
	for (s = secs; s; s = s->next) {
		const char *sec = s->data; PList *keys, *k; int kfirst = 1;
		if (!sec) { bad = "NULL section name"; continue; }
		if (nsec) (*nsec)++;
		keys = p_ini_file_keys(ini, sec);
		if (!keys && !bad) bad = "listed section has no keys";
		if (dump) { fprintf(dump, "%s{\"name\":", first ? "" : ","); ini_hex(dump, sec); fputs(",\"keys\":[", dump); first = 0; }
		for (k = keys; k; k = k->next) {
			const char *key = k->data; pchar *v; PList *lst, *li;
			if (!key) { bad = "NULL key name"; continue; }
			if (nkeys) (*nkeys)++;
			if (!p_ini_file_is_key_exists(ini, sec, key) && !bad) bad = "listed key does not exist";
			v = p_ini_file_parameter_string(ini, sec, key, NULL);
			if (!v && !bad) bad = "listed key has no retrievable value";
			if (dump) {
				int lfirst = 1;
				fprintf(dump, "%s{\"k\":", kfirst ? "" : ","); kfirst = 0; ini_hex(dump, key);
				fputs(",\"s\":", dump); if (v) ini_hex(dump, v); else fputs("null", dump);
				fprintf(dump, ",\"i\":%d,\"d\":\"%.17g\",\"b\":%d,\"l\":", p_ini_file_parameter_int(ini, sec, key, -77),
				        p_ini_file_parameter_double(ini, sec, key, 2.5), p_ini_file_parameter_boolean(ini, sec, key, TRUE) ? 1 : 0);
				lst = p_ini_file_parameter_list(ini, sec, key);
				if (!lst) fputs("null", dump); else { fputc('[', dump); for (li = lst; li; li = li->next) { if (!lfirst) fputc(',', dump); lfirst = 0; ini_hex(dump, li->data); } fputc(']', dump); }
				fputc('}', dump);
				p_list_foreach(lst, (PFunc)p_free, NULL); p_list_free(lst);
			} else {
				/* exercise the typed getters for memory errors only */
				(void)p_ini_file_parameter_int(ini, sec, key, 0); (void)p_ini_file_parameter_double(ini, sec, key, 0); (void)p_ini_file_parameter_boolean(ini, sec, key, FALSE);
				lst = p_ini_file_parameter_list(ini, sec, key); p_list_foreach(lst, (PFunc)p_free, NULL); p_list_free(lst);
			}
			p_free(v);
		}
		/* defaults for a missing key */
		{
			char mk[1200]; pchar *dv; ini_absent_name(keys, mk, sizeof mk);
#define MK mk
			dv = p_ini_file_parameter_string(ini, sec, MK, "dflt");
			int okd = dv && !strcmp(dv, "dflt") && p_ini_file_parameter_int(ini, sec, MK, -77) == -77 && p_ini_file_parameter_double(ini, sec, MK, 2.5) == 2.5
			          && p_ini_file_parameter_boolean(ini, sec, MK, TRUE) == TRUE && p_ini_file_parameter_boolean(ini, sec, MK, FALSE) == FALSE
			          && p_ini_file_parameter_list(ini, sec, MK) == NULL && !p_ini_file_is_key_exists(ini, sec, MK);
			if (!okd && !bad) bad = "missing key did not yield the defaults";
			p_free(dv);
		}
		if (dump) fputs("]}", dump);
		p_list_foreach(keys, (PFunc)p_free, NULL); p_list_free(keys);
	}
	{
		char ms[1200]; pchar *dv; ini_absent_name(secs, ms, sizeof ms);
		dv = p_ini_file_parameter_string(ini, ms, "k", "dflt");
		if ((!dv || strcmp(dv, "dflt") || p_ini_file_parameter_int(ini, ms, "k", 5) != 5 || p_ini_file_keys(ini, ms) != NULL) && !bad) bad = "missing section did not yield the defaults";
		p_free(dv);
	}
	if (dump) fprintf(dump, "],\"bad\":%s%s%s}\n", bad ? "\"" : "", bad ? bad : "null", bad ? "\"" : "");
	p_list_foreach(secs, (PFunc)p_free, NULL); p_list_free(secs);
	p_ini_file_free(ini);
	return bad;
}
#endif

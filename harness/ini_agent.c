/* ini_agent: C16 driver.
 *   ini_agent dump                      paths on stdin -> one JSON content dump per line
 *   ini_agent mutate --seed S --n N --scratch FILE   corpus paths on stdin; N mutated/random inputs are parsed and the
 *                                       robustness oracle (consistency, termination, sanitizers) is applied to each */
#include "ini_common.h"

static unsigned char *corpus[4096]; static size_t clen[4096]; static int ncorp;

static void load(const char *p) {
	FILE *f = fopen(p, "rb"); long n;
	if (!f || ncorp >= 4096) { if (f) fclose(f); return; }
	fseek(f, 0, SEEK_END); n = ftell(f); fseek(f, 0, SEEK_SET);
	corpus[ncorp] = malloc(n + 1); clen[ncorp] = fread(corpus[ncorp], 1, n, f); fclose(f); ncorp++;
}

static size_t mutate(vh_rng *r, unsigned char *b, size_t n, size_t cap) {
	static const char *tok[] = { "[", "]", "=", "\"", "'", "#", ";", "{", "}", "\n", "\r\n", " ", "\t", "[]", "==", "\"\"", "''", "{}", "\xEF\xBB\xBF", "\xFF\xFE", "\xFE\xFF", "[a]\n", "k=v\n", "= ", " =", "%", "\\" };
	int k = (int)vh_below(r, 12); size_t p = n ? vh_below(r, n) : 0, q;
	switch (k) {
	case 0: if (n) b[p] ^= (unsigned char)(1u << vh_below(r, 8)); break;
	case 1: if (n) b[p] = (unsigned char)vh_next(r); break;
	case 2: if (n) b[p] = 0; break;
	case 3: if (n > 1) { q = 1 + vh_below(r, n - p > 64 ? 64 : n - p); memmove(b + p, b + p + q, n - p - q); n -= q; } break;
	case 4: case 5: { const char *t = tok[vh_below(r, sizeof tok / sizeof tok[0])]; size_t l = strlen(t); if (n + l < cap) { memmove(b + p + l, b + p, n - p); memcpy(b + p, t, l); n += l; } break; }
	case 6: if (n && ncorp) { int o = (int)vh_below(r, ncorp); size_t ol = clen[o]; if (ol) { size_t s = vh_below(r, ol), l = 1 + vh_below(r, ol - s > 200 ? 200 : ol - s); if (n + l < cap) { memmove(b + p + l, b + p, n - p); memcpy(b + p, corpus[o] + s, l); n += l; } } } break;
	case 7: { size_t l = (size_t[]){ 1000, 1023, 1024, 1025, 2047, 2048, 4096 }[vh_below(r, 7)]; unsigned char c = (unsigned char)("a=[\"# "[vh_below(r, 6)]); if (n + l < cap) { memmove(b + p + l, b + p, n - p); memset(b + p, c, l); n += l; } break; }
	case 8: if (n > 2) { q = vh_below(r, n); if (q > p) { size_t l = q - p; if (n + l < cap) { memmove(b + q + l, b + q, n - q); memcpy(b + q, b + p, l); n += l; } } } break;
	case 9: if (n) { n = p; } break;
	case 10: { size_t i; for (i = 0; i < n; i++) if (b[i] == '\n' && vh_chance(r, 30)) b[i] = vh_chance(r, 50) ? '\r' : ' '; break; }
	default: if (n) { size_t i, l = 1 + vh_below(r, 8); for (i = 0; i < l && p + i < n; i++) b[p + i] = (unsigned char)(0x80 + vh_below(r, 128)); } break;
	}
	return n;
}

int main(int argc, char **argv) {
	char *line = NULL; size_t cap = 0; ssize_t n;
	p_libsys_init();
	if (argc >= 2 && !strcmp(argv[1], "dump")) {
		while ((n = getline(&line, &cap, stdin)) > 0) { if (line[n - 1] == '\n') line[n - 1] = 0; if (ini_check_file(line, stdout, NULL, NULL) && 0) {} }
		fflush(stdout);
	} else if (argc >= 2 && !strcmp(argv[1], "mutate")) {
		vh_rng r; long long N = vh_argi(argc, argv, "--n", 1000), i, nsec = 0, nkeys = 0, nonempty = 0, randoms = 0; const char *scratch = vh_arg(argc, argv, "--scratch", "/tmp/vf-ini-scratch");
		static unsigned char buf[1 << 16]; double t0 = vh_now(); int wit = 0;
		vh_seed(&r, (uint64_t)vh_argi(argc, argv, "--seed", 1));
		while ((n = getline(&line, &cap, stdin)) > 0) { if (line[n - 1] == '\n') line[n - 1] = 0; load(line); }
		if (!ncorp) VH_DIE("empty corpus");
		for (i = 0; i < N; i++) {
			size_t len; int m, j; FILE *f; const char *bad; long long s0 = nsec;
			if (vh_chance(&r, 8)) { len = vh_below(&r, 3000); for (j = 0; j < (int)len; j++) buf[j] = vh_chance(&r, 70) ? (unsigned char)"[]=\"'#;{} \n\tab1.-"[vh_below(&r, 18)] : (unsigned char)vh_next(&r); randoms++; }
			else { int c = (int)vh_below(&r, ncorp); len = clen[c]; memcpy(buf, corpus[c], len); m = 1 + (int)vh_below(&r, 8); for (j = 0; j < m; j++) len = mutate(&r, buf, len, sizeof buf - 8); }
			f = fopen(scratch, "wb"); if (!f) VH_DIE("scratch"); fwrite(buf, 1, len, f); fclose(f);
			bad = ini_check_file(scratch, NULL, &nsec, &nkeys);
			if (nsec > s0) nonempty++;
			if (bad && strcmp(bad, "parse failed")) {
				char wp[600], key[200]; FILE *w;
				snprintf(wp, sizeof wp, "%s.witness%d", scratch, wit++); w = fopen(wp, "wb"); if (w) { fwrite(buf, 1, len, w); fclose(w); }
				snprintf(key, sizeof key, "robustness symptom=%s", bad);
				if (vh_nviol < vh_max_viol) vh_viol("C16", key, "inconsistent object after parsing mutated input (%zu bytes), witness %s", len, wp);
			}
		}
		unlink(scratch);
		printf("{\"ev\":\"stats\",\"inputs\":%lld,\"random_inputs\":%lld,\"inputs_with_sections\":%lld,\"sections_seen\":%lld,\"keys_seen\":%lld,\"viol\":%d,\"wall\":%.2f}\n", N, randoms, nonempty, nsec, nkeys, vh_nviol, vh_now() - t0);
	} else VH_DIE("usage");
	p_libsys_shutdown();
	return 0;
}

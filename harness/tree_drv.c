/* tree_drv: model-based monitor for PTree (C12 sorted-map semantics, C13 balance, C14 ownership).
 *
 * The real tree is driven next to a reference map (arrays indexed by integer key).  Oracles:
 *  C12: return values, nnodes, lookup of every universe key, foreach order/identity, early-stop traversal
 *       (exact prefix, tree shape unchanged afterwards), clear.
 *  C13: shape reconstructed through the public API only (the comparator records the keys p_tree_lookup
 *       shows it = root-to-key path); AVL height check, exact red-black colourability DP, depth bounds.
 *  C14: every key/value object carries a state; notifiers log what is destroyed in each operation and the
 *       set must equal the model's prediction (replace: old pair; remove: that pair; clear/free: the rest).
 */
#include <plibsys.h>
#include <math.h>
#include <pthread.h>
#include "vh.h"

#define ST_LIVE  0x11fe11fe
#define ST_PROBE 0x960be960
#define ST_DEAD  0xdeadbeef

typedef struct Obj { uint32_t state; int key; int isval; uint32_t serial; } Obj;

static const char *TNAME[3] = {"bst", "rb", "avl"};

/* configuration */
static int g_mag;      /* cfg bit 32: comparator returns magnitudes other than 1 */
static int g_type, g_notif, g_withdata, g_desc, g_kn, g_vn;      /* g_kn / g_vn: a key / value notifier is installed (cfg bits 8 / 16 omit one of them) */
static int g_props = 7;           /* bit0 C12, bit1 C13, bit2 C14 */
static int U;                     /* key universe size */
static PTree *tree;
static Obj **mkey, **mval;        /* model: NULL = absent */
static int mn;                    /* model count */
static uint32_t serial;
static char cookie_area[8];
#define COOKIE ((ppointer)(cookie_area + 3))

/* op context */
static const char *cur_op = "-";
static int cur_children = -1;
static Obj *cur_probe;
static Obj *destroyed[16];
static long ndestroyed;
static int abort_hist;            /* set after a violation: model and tree may have diverged */

/* path recording */
static int recording, *path, pathlen, pathcap;
static long long ncompare;

/* quarantine of dead objects (no-deref-after-free for double destroy detection) */
#define QN 8192
static Obj *quar[QN]; static unsigned qhead;

/* stats */
static long long st_ops, st_hist, st_full, st_stops, st_replace, st_insert, st_remove_hit, st_remove_miss, st_clear, st_lookups, st_destroy_events;
static long long st_rm[3][4];     /* removals by children count x depth bucket (1,2-3,4-7,8+) */
static int st_maxn, st_maxdepth;
static long long st_rb_colourings_checked, st_avl_checked;

/* distinct shape set */
static uint64_t *shset; static size_t shcap = 1 << 16, shcnt;
static void shape_add(uint64_t h) {
	size_t i;
	if (!h) h = 1;
	if (shcnt * 2 > shcap && shcap < ((size_t)1 << 23)) {
		uint64_t *old = shset; size_t oc = shcap, j;
		shcap <<= 1; shset = calloc(shcap, 8);
		for (j = 0; j < oc; j++) if (old[j]) { i = old[j] & (shcap - 1); while (shset[i]) i = (i + 1) & (shcap - 1); shset[i] = old[j]; }
		free(old);
	}
	if (shcnt * 2 > shcap) return;
	i = h & (shcap - 1);
	while (shset[i]) { if (shset[i] == h) return; i = (i + 1) & (shcap - 1); }
	shset[i] = h; shcnt++;
}

static char oplog[512];
static void oplog_reset(void);
static void viol(int prop, const char *symptom, const char *fmt, ...) __attribute__((format(printf, 3, 4)));
static void viol(int prop, const char *symptom, const char *fmt, ...) {
	char key[256], buf[2048], ch[8]; va_list ap;
	const char *pn = prop == 12 ? "C12" : prop == 13 ? "C13" : "C14";
	va_start(ap, fmt); vsnprintf(buf, sizeof buf, fmt, ap); va_end(ap);
	if (cur_children >= 0) snprintf(ch, sizeof ch, "%d", cur_children); else strcpy(ch, "-");
	snprintf(key, sizeof key, "tree=%s op=%s children=%s symptom=%s", TNAME[g_type], cur_op, ch, symptom);
	if (!((g_props >> (prop - 12)) & 1)) { if (prop != 14) abort_hist = 1; return; }     /* ownership oracles stay silent (and do not cut the history short) when C14 is not the property under check */
	abort_hist = 1;
	if (vh_nviol < vh_max_viol)
		vh_viol(pn, key, "%s [cfg notif=%s data=%d desc=%d n=%d history: %s]", buf, !g_notif ? "none" : g_kn && g_vn ? "both" : g_kn ? "key-only" : "value-only", g_withdata, g_desc, mn, oplog);
}

static Obj *mkobj(int key, int isval, uint32_t state) {
	Obj *o = malloc(sizeof *o);
	o->state = state; o->key = key; o->isval = isval; o->serial = ++serial;
	return o;
}
static void bury(Obj *o) {           /* object left the tree: keep it readable for a while */
	o->state = ST_DEAD;
	if (quar[qhead % QN]) free(quar[qhead % QN]);
	quar[qhead++ % QN] = o;
}

static pint cmp3(pconstpointer a, pconstpointer b, ppointer data) {
	const Obj *x = a, *y = b; const Obj *node;
	ncompare++;
	if (g_withdata && data != COOKIE) viol(12, "comparator-data", "comparator user data %p != %p", data, COOKIE);
	node = (x == cur_probe) ? y : x;
	if (x != cur_probe && x->state != ST_LIVE) viol(14, "compare-destroyed", "comparator shown non-live object (state %x key %d)", x->state, x->key);
	if (y != cur_probe && y->state != ST_LIVE) viol(14, "compare-destroyed", "comparator shown non-live object (state %x key %d)", y->state, y->key);
	if (recording) { if (pathlen < pathcap) path[pathlen] = node->key; pathlen++; }
	if (g_mag) {     /* a total order whose results are not limited to -1/0/1 (like strcmp or a key difference): only the sign carries meaning */
		int d = x->key < y->key ? -(2 + (y->key - x->key) % 1000) : x->key > y->key ? 2 + (x->key - y->key) % 1000 : 0;
		return g_desc ? -d : d;
	}
	if (g_desc) return x->key < y->key ? 1 : x->key > y->key ? -1 : 0;
	return x->key < y->key ? -1 : x->key > y->key ? 1 : 0;
}
static pint cmp2(pconstpointer a, pconstpointer b) { return cmp3(a, b, NULL); }

/* "never while the pair is still stored": during p_tree_remove each notifier asks the tree for the key being removed; the tree must
 * already answer "absent" (and must not show a destroyed key to the comparator on the way) */
static int removing_key = -1; static long long st_innotif_lookups;
static void on_destroy(Obj *o, int isval) {
	st_destroy_events++;
	if (removing_key >= 0 && tree != NULL && o != NULL && o->state == ST_LIVE) {
		Obj p2 = { ST_PROBE, removing_key, 0, 0 }; Obj *saved = cur_probe; int rec = recording; ppointer got;
		cur_probe = &p2; recording = 0; got = p_tree_lookup(tree, &p2); cur_probe = saved; recording = rec; st_innotif_lookups++;
		if (got != NULL) viol(14, "destroyed-while-stored", "%s notifier of key %d ran while p_tree_lookup still finds the pair in the tree (remove)", isval ? "value" : "key", removing_key);
	}
	if (o == NULL) { viol(14, "destroy-null", "notifier called with NULL"); return; }
	if (o->state != ST_LIVE) { viol(14, "destroyed-twice", "notifier called for an object that is not owned by the tree (state %x key %d isval %d)", o->state, o->key, o->isval); return; }
	if (o->isval != isval) viol(14, "wrong-notifier", "key/value notifier mixed up for key %d", o->key);
	o->state = ST_DEAD;
	if (ndestroyed < 16) destroyed[ndestroyed] = o;
	ndestroyed++;
}
static void kdestroy(ppointer p) { on_destroy(p, 0); }
static void vdestroy(ppointer p) { on_destroy(p, 1); }

/* in model order (ascending by comparator): index transform */
static int ord(int k) { return g_desc ? -k : k; }

static void tree_new(void) {
	if (g_notif) tree = p_tree_new_full((PTreeType)g_type, cmp3, g_withdata ? COOKIE : NULL, g_kn ? kdestroy : NULL, g_vn ? vdestroy : NULL);
	else if (g_withdata) tree = p_tree_new_with_data((PTreeType)g_type, cmp3, COOKIE);
	else tree = p_tree_new((PTreeType)g_type, cmp2);
	if (!tree) VH_DIE("p_tree_new failed");
	if (p_tree_get_type(tree) != (PTreeType)g_type) viol(12, "type", "p_tree_get_type");
	mn = 0; abort_hist = 0; oplog_reset();
}

/* after an operation: compare the destroyed log with the expectation */
static void check_destroyed(Obj *e1, Obj *e2) {
	int exp, i; Obj *k1 = e1, *v1 = e2;
	if (!g_kn) e1 = NULL;       /* objects of a kind without notifier are simply forgotten by the tree: nothing may be called for them */
	if (!g_vn) e2 = NULL;
	exp = (e1 != NULL) + (e2 != NULL);
	if (k1 && !g_kn && k1->state != ST_LIVE) { viol(14, "object-altered", "key object of key %d altered although no key notifier is installed", k1->key); return; }
	if (v1 && !g_vn && v1->state != ST_LIVE) { viol(14, "object-altered", "value object of key %d altered although no value notifier is installed", v1->key); return; }
	if (!g_notif) { if (ndestroyed) viol(14, "destroy-without-notifier", "notifier called but none installed"); return; }
	for (i = 0; i < ndestroyed && i < 16; i++)
		if (destroyed[i] != e1 && destroyed[i] != e2) {
			viol(14, "wrong-object-destroyed", "destroyed %s of key %d, which the model keeps stored", destroyed[i]->isval ? "value" : "key", destroyed[i]->key);
			return;
		}
	if (ndestroyed > exp) { viol(14, "destroyed-too-many", "%ld objects destroyed, %d expected", ndestroyed, exp); return; }
	if (e1 && e1->state != ST_DEAD) { viol(14, "not-destroyed", "key object of key %d left the tree but was not passed to its notifier", e1->key); return; }
	if (e2 && e2->state != ST_DEAD) { viol(14, "not-destroyed", "value object of key %d left the tree but was not passed to its notifier", e2->key); return; }
}

static void check_nnodes(void) {
	int n = p_tree_get_nnodes(tree);
	if (n != mn) viol(12, "nnodes", "p_tree_get_nnodes=%d model=%d", n, mn);
}

/* record root-to-key path via lookup; returns value pointer */
static ppointer lookup_path(int k) {
	Obj probe = { ST_PROBE, k, 0, 0 }; ppointer r;
	cur_probe = &probe; recording = 1; pathlen = 0;
	r = p_tree_lookup(tree, &probe);
	recording = 0; cur_probe = NULL; st_lookups++;
	return r;
}
static int path_contains(int k) { int i, n = pathlen < pathcap ? pathlen : pathcap; for (i = 0; i < n; i++) if (path[i] == k) return 1; return 0; }

/* presence bitmap for fast neighbour queries */
static uint64_t *pbits;
static void pset(int k, int v) { if (v) pbits[k >> 6] |= 1ULL << (k & 63); else pbits[k >> 6] &= ~(1ULL << (k & 63)); }
static int scan_down(int k) { /* largest present index <= k, or -1 */
	int w; uint64_t m;
	if (k < 0) return -1;
	w = k >> 6; m = pbits[w] & (((k & 63) == 63) ? ~0ULL : ((1ULL << ((k & 63) + 1)) - 1));
	for (;;) { if (m) return (w << 6) + 63 - __builtin_clzll(m); if (--w < 0) return -1; m = pbits[w]; }
}
static int scan_up(int k) { /* smallest present index >= k, or -1 */
	int w, nw = (U + 63) >> 6; uint64_t m;
	if (k >= U) return -1;
	w = k >> 6; m = pbits[w] & (~0ULL << (k & 63));
	for (;;) { if (m) return (w << 6) + __builtin_ctzll(m); if (++w >= nw) return -1; m = pbits[w]; }
}
static int model_pred(int k) { return g_desc ? scan_up(k + 1) : scan_down(k - 1); }
static int model_succ(int k) { return g_desc ? scan_down(k - 1) : scan_up(k + 1); }
static int model_min(void) { return g_desc ? scan_down(U - 1) : scan_up(0); }
static int model_max(void) { return g_desc ? scan_up(0) : scan_down(U - 1); }

/* ---------- shape ---------- */
static int *sl, *sr, *sdepth, sroot;          /* children by key, -1 none */
static int *stk;
static int shape_ok;

static uint64_t reconstruct_shape(void) {
	int k, i; uint64_t h = 1469598103934665603ULL;
	shape_ok = 1; sroot = -1;
	for (k = 0; k < U; k++) { sl[k] = sr[k] = -1; sdepth[k] = 0; }
	for (k = 0; k < U; k++) {
		ppointer v;
		if (!mkey[k]) continue;
		v = lookup_path(k);
		if (v != mval[k]) { viol(12, "lookup-mismatch", "lookup(%d) returned %p, model %p", k, v, (void *)mval[k]); shape_ok = 0; return 0; }
		if (pathlen > pathcap || pathlen < 1 || path[pathlen - 1] != k) { viol(12, "lookup-path", "lookup(%d) path inconsistent (len %d)", k, pathlen); shape_ok = 0; return 0; }
		if (sroot < 0) sroot = path[0];
		else if (sroot != path[0]) { viol(12, "lookup-path", "two different roots observed"); shape_ok = 0; return 0; }
		sdepth[k] = pathlen;
		if (pathlen > st_maxdepth) st_maxdepth = pathlen;
		for (i = 0; i + 1 < pathlen; i++) {
			int p = path[i], c = path[i + 1];
			int *slot = (ord(c) < ord(p)) ? &sl[p] : &sr[p];
			if (*slot == -1) *slot = c;
			else if (*slot != c) { viol(12, "lookup-path", "node %d has two different children on one side", p); shape_ok = 0; return 0; }
		}
	}
	/* hash preorder (iterative) */
	if (sroot >= 0) {
		int sp = 0; stk[sp++] = sroot;
		while (sp) {
			int x = stk[--sp];
			h = (h ^ (uint64_t)(x + 1)) * 1099511628211ULL;
			h = (h ^ (uint64_t)((sl[x] >= 0) | ((sr[x] >= 0) << 1))) * 1099511628211ULL;
			if (sr[x] >= 0) stk[sp++] = sr[x];
			if (sl[x] >= 0) stk[sp++] = sl[x];
		}
	}
	return h;
}

/* post-order evaluation of AVL heights and RB colourability sets */
static int *hgt; static uint64_t *rbB, *rbR;
static void check_balance(void) {
	int sp = 0, *order = stk, cnt = 0, i;
	int *post = sdepth; /* reuse not allowed: sdepth needed; allocate separate */
	(void)post;
	if (sroot < 0 || !shape_ok) return;
	/* produce reverse-preorder list (root, right..., left...) -> processing it backwards is a valid post-order */
	{
		static int *lst; static int lcap;
		if (lcap < U) { free(lst); lst = malloc(sizeof(int) * U); lcap = U; }
		order[sp++] = sroot;
		while (sp) { int x = order[--sp]; lst[cnt++] = x; if (sl[x] >= 0) order[sp++] = sl[x]; if (sr[x] >= 0) order[sp++] = sr[x]; }
		for (i = cnt - 1; i >= 0; i--) {
			int x = lst[i];
			int hl = sl[x] >= 0 ? hgt[sl[x]] : 0, hr = sr[x] >= 0 ? hgt[sr[x]] : 0;
			uint64_t Bl = sl[x] >= 0 ? rbB[sl[x]] : 1, Rl = sl[x] >= 0 ? rbR[sl[x]] : 0;
			uint64_t Br = sr[x] >= 0 ? rbB[sr[x]] : 1, Rr = sr[x] >= 0 ? rbR[sr[x]] : 0;
			hgt[x] = 1 + (hl > hr ? hl : hr);
			rbB[x] = ((Bl | Rl) & (Br | Rr)) << 1;
			rbR[x] = Bl & Br;
			if (g_type == 2 && abs(hl - hr) > 1) { viol(13, "avl-unbalanced", "node %d: left height %d right height %d", x, hl, hr); return; }
		}
	}
	if (g_type == 2) {
		double bound = 1.4405 * log2((double)mn + 2.0) - 0.3277;
		st_avl_checked++;
		if (hgt[sroot] > bound + 1e-9) viol(13, "avl-depth", "height %d > 1.44*log2(n+2) bound %.3f for n=%d", hgt[sroot], bound, mn);
	}
	if (g_type == 1) {
		double bound = 2.0 * log2((double)mn + 1.0);
		st_rb_colourings_checked++;
		if (!(rbB[sroot] | rbR[sroot])) viol(13, "rb-not-colourable", "shape with %d nodes admits no valid red-black colouring (height %d)", mn, hgt[sroot]);
		else if (hgt[sroot] > bound + 1e-9) viol(13, "rb-depth", "height %d > 2*log2(n+1)=%.3f for n=%d", hgt[sroot], bound, mn);
	}
}

/* ---------- traversal ---------- */
typedef struct { int stop_at; int count; int prev_ok; int last_key; int bad; int calls_after_stop; } Trav;
static int *model_sorted; static int model_sorted_n;
static void build_sorted(void) {
	int k; model_sorted_n = 0;
	if (!g_desc) { for (k = 0; k < U; k++) if (mkey[k]) model_sorted[model_sorted_n++] = k; }
	else { for (k = U - 1; k >= 0; k--) if (mkey[k]) model_sorted[model_sorted_n++] = k; }
}
static pboolean trav_cb(ppointer key, ppointer value, ppointer ud) {
	Trav *t = ud; Obj *ko = key;
	if (t->stop_at >= 0 && t->count > t->stop_at) { t->calls_after_stop++; return TRUE; }
	if (t->count >= model_sorted_n) { t->bad = 1; t->count++; return FALSE; }
	{
		int ek = model_sorted[t->count];
		if (ko != mkey[ek] || value != (ppointer)mval[ek]) t->bad = 2;
	}
	t->count++;
	return (t->stop_at >= 0 && t->count > t->stop_at) ? TRUE : FALSE;
}

static void check_foreach_full(const char *when) {
	Trav t = { -1, 0, 0, 0, 0, 0 };
	p_tree_foreach(tree, trav_cb, &t);
	if (t.bad == 2) viol(12, "foreach-order", "foreach (%s) visited a pair that is not the next model pair in ascending order", when);
	else if (t.bad || t.count != model_sorted_n) viol(12, "foreach-count", "foreach (%s) visited %d pairs, model has %d", when, t.count, model_sorted_n);
}

static void full_check(vh_rng *r, int exhaustive_stops) {
	uint64_t h1, h2; int k, j;
	if (abort_hist) return;
	st_full++;
	check_nnodes();
	build_sorted();
	/* lookups of absent keys */
	for (k = 0; k < U && !abort_hist; k++) if (!mkey[k]) {
		if (U > 64 && vh_below(r, 8)) continue;
		if (lookup_path(k) != NULL) viol(12, "lookup-absent", "lookup(%d) of an absent key returned non-NULL", k);
	}
	if (abort_hist) return;
	h1 = reconstruct_shape();         /* includes lookup of every present key */
	if (abort_hist) return;
	shape_add(h1 ^ ((uint64_t)g_type << 60));
	if (mn > st_maxn) st_maxn = mn;
	if (g_props & 2) check_balance();
	if (abort_hist) return;
	if (g_props & 1) {
		check_foreach_full("full");
		if (abort_hist) return;
		/* early stop at position j */
		for (j = 0; j < model_sorted_n; j++) {
			Trav t = { 0, 0, 0, 0, 0, 0 };
			if (!exhaustive_stops && model_sorted_n > 12 && vh_below(r, model_sorted_n) >= 6) continue;
			t.stop_at = j;
			p_tree_foreach(tree, trav_cb, &t);
			st_stops++;
			if (t.bad || t.count != j + 1) { viol(12, "foreach-stop", "traversal stopped at position %d visited %d pairs / wrong pairs", j, t.count); return; }
			if (t.calls_after_stop) { viol(12, "foreach-stop", "callback invoked %d times after it asked to stop", t.calls_after_stop); return; }
			check_foreach_full("after-stop");
			if (abort_hist) return;
			if (model_sorted_n <= 64 || j == 0 || vh_below(r, 4) == 0) {
				h2 = reconstruct_shape();
				if (abort_hist) return;
				if (h2 != h1) { viol(12, "foreach-stop-changed-tree", "tree shape differs after a traversal stopped at position %d", j); return; }
			}
		}
	}
}

/* ---------- operations ---------- */
static int oplen;
static void oplog_reset(void) { oplen = 0; oplog[0] = 0; }
static void oplog_add(char c, int k) { if (oplen >= 480) { char *sp = strchr(oplog + 240, ' '); if (sp) { memmove(oplog + 3, sp, strlen(sp) + 1); memcpy(oplog, "...", 3); oplen = (int)strlen(oplog); } } if (oplen < 480) oplen += snprintf(oplog + oplen, sizeof oplog - oplen, "%s%c%d", oplen ? " " : "", c, k); }

static void note_removal_class(int k) {
	int p, s, hl = 0, hr = 0, d, b;
	lookup_path(k); d = pathlen;
	p = model_pred(k); s = model_succ(k);
	if (p >= 0) { lookup_path(p); hl = path_contains(k); }
	if (s >= 0) { lookup_path(s); hr = path_contains(k); }
	cur_children = hl + hr;
	b = d <= 1 ? 0 : d <= 3 ? 1 : d <= 7 ? 2 : 3;
	st_rm[cur_children][b]++;
}

static void op_insert(int k) {
	Obj *nk = mkobj(k, 0, ST_LIVE), *nv = mkobj(k, 1, ST_LIVE), *ok = mkey[k], *ov = mval[k];
	cur_op = ok ? "replace" : "insert"; cur_children = -1; ndestroyed = 0; st_ops++; oplog_add('i', k);
	if (ok) st_replace++; else st_insert++;
	cur_probe = NULL;
	p_tree_insert(tree, nk, nv);
	if (abort_hist) return;
	check_destroyed(ok, ov);
	if (abort_hist) return;
	if (ok) {
		if (!g_notif) { if (ok->state != ST_LIVE || ov->state != ST_LIVE || ok->key != k || ov->key != k) viol(14, "object-altered", "user object altered without notifier"); }
		bury(ok); bury(ov);
	} else mn++;
	mkey[k] = nk; mval[k] = nv; pset(k, 1);
	check_nnodes();
}

static void op_remove(int k) {
	Obj probe = { ST_PROBE, k, 0, 0 }, *ok = mkey[k], *ov = mval[k]; pboolean r;
	cur_op = "remove"; cur_children = -1; st_ops++; oplog_add('r', k);
	if (ok) { note_removal_class(k); st_remove_hit++; } else st_remove_miss++;
	if (abort_hist) return;
	ndestroyed = 0;
	cur_probe = &probe; removing_key = ok ? k : -1;
	r = p_tree_remove(tree, &probe);
	cur_probe = NULL; removing_key = -1;
	if (abort_hist) return;
	if ((r != FALSE) != (ok != NULL)) { viol(12, "remove-return", "remove(%d) returned %d, key %s", k, r, ok ? "present" : "absent"); return; }
	check_destroyed(ok, ov);
	if (abort_hist) return;
	if (ok) {
		if (!g_notif && (ok->state != ST_LIVE || ov->state != ST_LIVE)) viol(14, "object-altered", "user object altered without notifier");
		bury(ok); bury(ov); mkey[k] = mval[k] = NULL; pset(k, 0); mn--;
	}
	check_nnodes();
	if (abort_hist) return;
	if (lookup_path(k) != NULL) viol(12, "lookup-after-remove", "lookup(%d) non-NULL right after remove", k);
	cur_children = -1;
}

static void op_lookup(int k) {
	ppointer v; cur_op = "lookup"; cur_children = -1;
	v = lookup_path(k);
	if (v != (ppointer)mval[k]) viol(12, "lookup-mismatch", "lookup(%d) returned %p model %p", k, v, (void *)mval[k]);
}

static void model_drop_all(const char *op) {
	int k; long exp = 0;
	for (k = 0; k < U; k++) if (mkey[k]) {
		exp += g_kn + g_vn;
		if (!abort_hist) {
			if (g_kn ? mkey[k]->state != ST_DEAD : mkey[k]->state != ST_LIVE) viol(14, g_kn ? "not-destroyed" : "object-altered", g_kn ? "%s: key object of key %d not passed to notifier" : "%s altered the key object of key %d without a key notifier", op, k);
			else if (g_vn ? mval[k]->state != ST_DEAD : mval[k]->state != ST_LIVE) viol(14, g_vn ? "not-destroyed" : "object-altered", g_vn ? "%s: value object of key %d not passed to notifier" : "%s altered the value object of key %d without a value notifier", op, k);
		}
		bury(mkey[k]); bury(mval[k]); mkey[k] = mval[k] = NULL; pset(k, 0);
	}
	if (g_notif && !abort_hist && ndestroyed != exp) viol(14, "destroy-count", "%s: %ld notifier calls, %ld expected", op, ndestroyed, exp);
	mn = 0;
}

static void op_clear(void) {
	cur_op = "clear"; cur_children = -1; ndestroyed = 0; st_ops++; st_clear++; oplog_add('c', 0);
	cur_probe = NULL;
	p_tree_clear(tree);
	model_drop_all("clear");
	if (abort_hist) return;
	check_nnodes();
}

static void tree_free_checked(void) {
	cur_op = "free"; cur_children = -1; ndestroyed = 0; cur_probe = NULL;
	p_tree_free(tree); tree = NULL;
	model_drop_all("free");
	st_hist++;
}

/* ---------- modes ---------- */
static void run_exhaust(int L, int first, vh_rng *r) {
	/* all op sequences (ops: insert k | remove k, k<U) of length 1..L whose first op index == first (or all) */
	int nops = 2 * U, len;
	int seq[16];
	for (len = 1; len <= L; len++) {
		long long total = 1, idx; int i;
		for (i = 1; i < len; i++) total *= nops;
		for (idx = 0; idx < total * (first < 0 ? nops : 1); idx++) {
			long long x = idx;
			if (first >= 0) seq[0] = first; else { seq[0] = (int)(x % nops); x /= nops; }
			for (i = 1; i < len; i++) { seq[i] = (int)(x % nops); x /= nops; }
			tree_new();
			for (i = 0; i < len && !abort_hist; i++) {
				if (seq[i] < U) op_insert(seq[i]); else op_remove(seq[i] - U);
			}
			full_check(r, 1);
			if (!abort_hist && (idx & 7) == 0) { op_clear(); full_check(r, 1); }
			tree_free_checked();
			if (vh_nviol >= vh_max_viol) return;
		}
	}
}

static int next_perm(int *a, int n) {
	int i = n - 2, j, t;
	while (i >= 0 && a[i] >= a[i + 1]) i--;
	if (i < 0) return 0;
	j = n - 1; while (a[j] <= a[i]) j--;
	t = a[i]; a[i] = a[j]; a[j] = t;
	for (i++, j = n - 1; i < j; i++, j--) { t = a[i]; a[i] = a[j]; a[j] = t; }
	return 1;
}

static void run_perm(int n, int first, vh_rng *r) {
	int a[16], i, rm, order[16];
	for (i = 0; i < n; i++) a[i] = i;
	do {
		if (first >= 0 && a[0] != first) continue;
		/* (a) build, full check, each single removal */
		for (rm = -1; rm < n; rm++) {
			tree_new();
			for (i = 0; i < n && !abort_hist; i++) op_insert(a[i]);
			if (rm >= 0 && !abort_hist) op_remove(rm);
			full_check(r, rm < 0);
			tree_free_checked();
			if (vh_nviol >= vh_max_viol) return;
		}
		/* (b) remove everything in a random order, shape checks at each step */
		tree_new();
		for (i = 0; i < n && !abort_hist; i++) op_insert(a[i]);
		for (i = 0; i < n; i++) order[i] = i;
		for (i = n - 1; i > 0; i--) { int j = (int)vh_below(r, i + 1), t = order[i]; order[i] = order[j]; order[j] = t; }
		for (i = 0; i < n && !abort_hist; i++) {
			op_remove(order[i]);
			if (!abort_hist) { uint64_t h; cur_op = "remove"; h = reconstruct_shape(); if (!abort_hist) { shape_add(h ^ ((uint64_t)g_type << 60)); if (g_props & 2) check_balance(); } }
		}
		tree_free_checked();
		if (vh_nviol >= vh_max_viol) return;
	} while (next_perm(a, n));
}

static int pick_present(vh_rng *r) {
	int k, tries;
	if (!mn) return -1;
	for (tries = 0; tries < 64; tries++) { k = (int)vh_below(r, U); if (mkey[k]) return k; }
	for (k = 0; k < U; k++) if (mkey[k]) return k;
	return -1;
}

static void run_random(long long ops, int maxn, vh_rng *r) {
	long long done = 0; int phase_left = 0, phase = 0, cursor = 0, zig = 0;
	int bst = (g_type == 0);
	tree_new();
	while (done < ops && vh_nviol < vh_max_viol) {
		int k = -1;
		if (abort_hist) { tree_free_checked(); tree_new(); }
		if (phase_left <= 0) {
			phase = (int)vh_below(r, 12);
			phase_left = 1 + (int)vh_below(r, (uint64_t)(maxn < 16 ? 16 : maxn));
			if (bst && phase_left > 300) phase_left = 300;
			cursor = (int)vh_below(r, U); zig = 0;
			if (vh_below(r, 40) == 0) { op_clear(); if (!abort_hist && vh_below(r, 2)) full_check(r, 0); }
		}
		phase_left--;
		switch (phase) {
		case 0: k = cursor; cursor = (cursor + 1) % U; if (mn < maxn) op_insert(k); else op_remove(k); break;          /* ascending */
		case 1: k = cursor; cursor = (cursor + U - 1) % U; if (mn < maxn) op_insert(k); else op_remove(k); break;      /* descending */
		case 2: k = (zig & 1) ? (U - 1 - zig / 2) : zig / 2; zig++; if (zig >= U) zig = 0; if (mn < maxn) op_insert(k); else op_remove(k); break;
		case 3: case 4: k = (int)vh_below(r, U); if (mn < maxn) op_insert(k); else op_remove(k); break;               /* random insert */
		case 5: k = (int)vh_below(r, U); op_remove(k); break;                                                        /* random remove (hit or miss) */
		case 6: if (mn) op_remove(model_min()); else phase_left = 0; break;          /* remove min */
		case 7: if (mn) op_remove(model_max()); else phase_left = 0; break; /* remove max */
		case 8: if (mn) { k = pick_present(r); lookup_path(k); op_remove(path[0]); } else phase_left = 0; break;        /* remove root */
		case 9: k = pick_present(r); if (k >= 0) op_insert(k); else phase_left = 0; break;                             /* replace */
		case 10: { /* remove a node with two children if one can be found quickly */
			int t, found = -1;
			for (t = 0; t < 8 && mn > 2; t++) {
				int c = pick_present(r), p = model_pred(c), s = model_succ(c), hl = 0, hr = 0;
				if (p >= 0) { lookup_path(p); hl = path_contains(c); }
				if (s >= 0) { lookup_path(s); hr = path_contains(c); }
				if (hl && hr) { found = c; break; }
			}
			if (found >= 0) op_remove(found); else phase_left = 0;
			break; }
		case 11: k = (int)vh_below(r, U); op_lookup(k); break;
		}
		done++;
		if (abort_hist) continue;
		/* large universes make model_pred / build_sorted linear: keep U moderate (<= 2*maxn) */
		{
			uint64_t period = (uint64_t)(mn / 4 + 1);
			if (bst && mn > 256) period *= 8;
			if (vh_below(r, period) == 0) full_check(r, 0);
		}
	}
	if (!abort_hist) full_check(r, 0);
	tree_free_checked();
}

/* progress watchdog: a damaged tree (a cycle among its links) makes lookup, insert or traversal loop for ever; the comparator and every
 * operation bump counters, so "no operation finished for 20 s" is reported as a call that never returns, with the history that led to it */
static void *tree_wd(void *a) {
	long long last = -1; int idle = 0; (void)a;
	for (;;) { long long p; sleep(1); p = __atomic_load_n(&st_ops, __ATOMIC_RELAXED) + __atomic_load_n(&st_full, __ATOMIC_RELAXED) + __atomic_load_n(&st_lookups, __ATOMIC_RELAXED) + __atomic_load_n(&st_hist, __ATOMIC_RELAXED);
		if (p != last) { last = p; idle = 0; }
		else if (++idle >= 20) { g_props |= 1; viol(12, "never-returns", "no tree operation finished for 20 s: a %s call on the tree does not return (links form a cycle?)", cur_op); fflush(stdout); _exit(0); } }
	return NULL;
}

/* ---- "intkeys" mode (C12/C14): keys and values are small integers stored directly in the pointers, so the key 0 and one value per
 * tree are the NULL pointer - legal data that the notifiers must receive like any other.  Model: present[k] = value id.  After each call
 * the multiset of (notifier kind, pointer) events must equal the expectation exactly. */
#define IK_U 12
typedef struct { int isval; intptr_t p; } IkEv;
static IkEv ik_ev[64]; static int ik_nev; static long long st_ik_ops, st_ik_null_events, st_ik_events, st_ik_same_value;
static void ik_kd(ppointer p) { if (ik_nev < 64) { ik_ev[ik_nev].isval = 0; ik_ev[ik_nev].p = (intptr_t)p; } ik_nev++; }
static void ik_vd(ppointer p) { if (ik_nev < 64) { ik_ev[ik_nev].isval = 1; ik_ev[ik_nev].p = (intptr_t)p; } ik_nev++; }
static pint ik_cmp(pconstpointer a, pconstpointer b, ppointer d) { intptr_t x = (intptr_t)a, y = (intptr_t)b; (void)d; return x < y ? -1 : x > y ? 1 : 0; }
static int ik_expect(const char *op, const IkEv *want, int nwant) {
	int i, j, used[64] = { 0 };
	for (i = 0; i < ik_nev && i < 64; i++) { st_ik_events++; if (ik_ev[i].p == 0) st_ik_null_events++; }
	if (ik_nev != nwant) { viol(14, "destroy-count", "integer-pointer keys: %s caused %d notifier calls, %d expected (NULL is a legal key/value)", op, ik_nev, nwant); return 0; }
	for (i = 0; i < nwant; i++) { for (j = 0; j < ik_nev; j++) if (!used[j] && ik_ev[j].isval == want[i].isval && ik_ev[j].p == want[i].p) { used[j] = 1; break; }
		if (j == ik_nev) { viol(14, want[i].p == 0 ? "null-object-not-destroyed" : "not-destroyed", "integer-pointer keys: %s did not pass %s %ld to its notifier", op, want[i].isval ? "value" : "key", (long)want[i].p); return 0; } }
	return 1;
}
static void run_intkeys(long long ops, int cfg, vh_rng *r) {
	int kn = !(cfg & 8), vn = !(cfg & 16); long long n; int present[IK_U], k, i; intptr_t val[IK_U], nextv = 0; PTree *t;
	cur_op = "intkeys"; cur_children = -1;
	t = p_tree_new_full((PTreeType)g_type, ik_cmp, NULL, kn ? ik_kd : NULL, vn ? ik_vd : NULL);
	for (k = 0; k < IK_U; k++) present[k] = 0;
	for (n = 0; n < ops && vh_nviol < vh_max_viol; n++) {
		int op = (int)vh_below(r, 100); IkEv want[2 * IK_U]; int nw = 0; st_ik_ops++; st_ops++;
		k = (int)vh_below(r, IK_U); ik_nev = 0;
		if (op < 55) {
			intptr_t v;
			if (present[k] && vh_below(r, 6) == 0) { v = val[k]; st_ik_same_value++; }      /* the very pointer that is stored already (a new reference to a counted object, an integer): still one notifier call for the replaced value */
			else v = nextv++;
			if (present[k]) { if (kn) { want[nw].isval = 0; want[nw++].p = k; } if (vn) { want[nw].isval = 1; want[nw++].p = val[k]; } }
			p_tree_insert(t, (ppointer)(intptr_t)k, (ppointer)v);
			if (!ik_expect(present[k] ? "replace" : "insert", want, nw)) break;
			present[k] = 1; val[k] = v;
		} else if (op < 90) {
			pboolean rc;
			if (present[k]) { if (kn) { want[nw].isval = 0; want[nw++].p = k; } if (vn) { want[nw].isval = 1; want[nw++].p = val[k]; } }
			rc = p_tree_remove(t, (ppointer)(intptr_t)k);
			if ((rc != FALSE) != (present[k] != 0)) { viol(12, "remove-return", "integer-pointer keys: remove(%d) returned %d, key %s", k, rc, present[k] ? "present" : "absent"); break; }
			if (!ik_expect("remove", want, nw)) break;
			present[k] = 0;
		} else if (op < 97) {
			ppointer got = p_tree_lookup(t, (ppointer)(intptr_t)k);
			if (present[k] ? got != (ppointer)val[k] : got != NULL) { viol(12, "lookup-mismatch", "integer-pointer keys: lookup(%d) returned %p, model %s%ld", k, got, present[k] ? "" : "absent ", present[k] ? (long)val[k] : 0L); break; }
			if (!ik_expect("lookup", want, 0)) break;
		} else {
			for (i = 0; i < IK_U; i++) if (present[i]) { if (kn) { want[nw].isval = 0; want[nw++].p = i; } if (vn) { want[nw].isval = 1; want[nw++].p = val[i]; } present[i] = 0; }
			p_tree_clear(t);
			if (!ik_expect("clear", want, nw)) break;
			if (p_tree_get_nnodes(t) != 0) { viol(12, "nnodes", "integer-pointer keys: %d nodes after clear", p_tree_get_nnodes(t)); break; }
			nextv = 0;        /* the next value inserted is the NULL pointer again */
		}
	}
	{ IkEv want[2 * IK_U]; int nw = 0; ik_nev = 0;
	  for (i = 0; i < IK_U; i++) if (present[i]) { if (kn) { want[nw].isval = 0; want[nw++].p = i; } if (vn) { want[nw].isval = 1; want[nw++].p = val[i]; } }
	  p_tree_free(t); if (vh_nviol < vh_max_viol) ik_expect("free", want, nw); }
}

int main(int argc, char **argv) {
	const char *mode = vh_arg(argc, argv, "--mode", "random");
	uint64_t seed = (uint64_t)vh_argi(argc, argv, "--seed", 1);
	int L = (int)vh_argi(argc, argv, "--L", 5), first = (int)vh_argi(argc, argv, "--first", -1);
	int n = (int)vh_argi(argc, argv, "--n", 6), maxn = (int)vh_argi(argc, argv, "--maxn", 64);
	long long ops = vh_argi(argc, argv, "--ops", 100000);
	int cfg = (int)vh_argi(argc, argv, "--cfg", 3);
	vh_rng r; double t0 = vh_now(); int i, j;
	g_type = (int)vh_argi(argc, argv, "--type", 1);
	g_props = (int)vh_argi(argc, argv, "--props", 7);
	g_notif = cfg & 1; g_withdata = (cfg >> 1) & 1; g_desc = (cfg >> 2) & 1; g_kn = g_notif && !(cfg & 8); g_vn = g_notif && !(cfg & 16); g_mag = (cfg & 32) != 0;
	U = (int)vh_argi(argc, argv, "--U", 4);
	if (!strcmp(mode, "perm")) U = n;
	if (!strcmp(mode, "random") && U < 2 * maxn) U = 2 * maxn;
	vh_seed(&r, seed * 7919 + g_type * 131 + cfg);
	p_libsys_init();
	{ pthread_t wd; pthread_create(&wd, NULL, tree_wd, NULL); }
	mkey = calloc(U, sizeof *mkey); mval = calloc(U, sizeof *mval);
	sl = malloc(sizeof(int) * U); sr = malloc(sizeof(int) * U); sdepth = malloc(sizeof(int) * U);
	stk = malloc(sizeof(int) * (U + 2)); hgt = malloc(sizeof(int) * U);
	pbits = calloc((U + 63) / 64 + 1, 8); rbB = malloc(8 * U); rbR = malloc(8 * U); model_sorted = malloc(sizeof(int) * U);
	pathcap = U + 2; path = malloc(sizeof(int) * pathcap);
	shset = calloc(shcap, 8);
	if (!strcmp(mode, "exhaust")) run_exhaust(L, first, &r);
	else if (!strcmp(mode, "perm")) run_perm(n, first, &r);
	else if (!strcmp(mode, "intkeys")) { int rep; for (rep = 0; rep < 200 && vh_nviol < vh_max_viol; rep++) { run_intkeys(ops / 200 + 1, cfg, &r); st_hist++; } }
	else run_random(ops, maxn, &r);
	printf("{\"ev\":\"sample\",\"tree\":\"%s\",\"mode\":\"%s\",\"cfg\":%d,\"last_history_ops\":\"%s\"}\n", TNAME[g_type], mode, cfg, oplog);
	for (i = 0; i < QN; i++) free(quar[i]);
	p_libsys_shutdown();
	printf("{\"ev\":\"stats\",\"mode\":\"%s\",\"tree\":\"%s\",\"cfg\":%d,\"ops\":%lld,\"histories\":%lld,\"full_checks\":%lld,\"distinct_shapes\":%zu,"
	       "\"stop_traversals\":%lld,\"inserts\":%lld,\"replaces\":%lld,\"remove_hit\":%lld,\"remove_miss\":%lld,\"clears\":%lld,\"lookups\":%lld,"
	       "\"compares\":%lld,\"destroy_events\":%lld,\"lookups_inside_notifiers\":%lld,\"intkey_ops\":%lld,\"intkey_notifier_calls\":%lld,\"intkey_notifier_calls_with_null\":%lld,\"intkey_replace_with_stored_value\":%lld,\"max_n\":%d,\"max_depth\":%d,\"avl_checked\":%lld,\"rb_checked\":%lld,\"viol\":%d,\"wall\":%.2f,\"removals\":[",
	       mode, TNAME[g_type], cfg, st_ops, st_hist, st_full, shcnt, st_stops, st_insert, st_replace, st_remove_hit, st_remove_miss, st_clear,
	       st_lookups, ncompare, st_destroy_events, st_innotif_lookups, st_ik_ops, st_ik_events, st_ik_null_events, st_ik_same_value, st_maxn, st_maxdepth, st_avl_checked, st_rb_colourings_checked, vh_nviol, vh_now() - t0);
	for (i = 0; i < 3; i++) { printf("%s[", i ? "," : ""); for (j = 0; j < 4; j++) printf("%s%lld", j ? "," : "", st_rm[i][j]); printf("]"); }
	printf("]}\n");
	return 0;
}

/* c15_cont: PHashTable against a pointer-identity map model, PList against an array model (C15).
 * Built with ASan+UBSan (-fno-sanitize-recover): any UB for some pointer bit pattern aborts the run. */
#include <plibsys.h>
#include <pthread.h>
#include <limits.h>
#include "vh.h"

#define P 384                       /* key pool */
static ppointer pool[P]; static int present[P]; static ppointer val[P];
static int nlive;
static PHashTable *ht;
static long long st_ops, st_ins_new, st_overwrite, st_rm_hit, st_rm_miss, st_lookup_hit, st_lookup_miss, st_lists, st_lbv, st_tables, st_full;
static long long st_class[8];
static int max_chain;
static const char *cur_op = "-";
static int abort_hist;

static void viol(const char *symptom, const char *fmt, ...) __attribute__((format(printf, 2, 3)));
static void viol(const char *symptom, const char *fmt, ...) {
	char key[200], buf[1024]; va_list ap;
	va_start(ap, fmt); vsnprintf(buf, sizeof buf, fmt, ap); va_end(ap);
	snprintf(key, sizeof key, "op=%s symptom=%s", cur_op, symptom);
	abort_hist = 1;
	if (vh_nviol < vh_max_viol) vh_viol("C15", key, "%s", buf);
}

static uintptr_t gen_pattern(vh_rng *r, int cls) {
	uint64_t hi = 0;
	switch (vh_below(r, 5)) { case 0: hi = 0; break; case 1: hi = 0x7fff; break; case 2: hi = 0xffffffffULL; break; case 3: hi = 1; break; default: hi = vh_next(r) >> 32; }
	switch (cls) {
	case 0: return (uintptr_t)(hi << 32) | (uint32_t)(INT_MAX - (int)vh_below(r, 41));      /* INT_MAX-adjacent low word */
	case 1: return (uintptr_t)(hi << 32) | (uint32_t)(0x80000000u + (uint32_t)vh_below(r, 64)); /* negative low word */
	case 2: return (uintptr_t)(hi << 32) | (uint32_t)(0xffffffffu - (uint32_t)vh_below(r, 64)); /* -1-adjacent low word */
	case 3: return (uintptr_t)vh_next(r);                                                     /* random 64 bit */
	case 4: return (uintptr_t)(vh_below(r, 64));                                              /* tiny */
	case 5: return (uintptr_t)(64 + 101 * vh_below(r, 4000));                                  /* congruent mod 101 (one chain) */
	case 6: return (uintptr_t)(hi << 32) | (uint32_t)(64 + 101 * vh_below(r, 100000));          /* same chain, high words differ */
	default: return (uintptr_t)malloc(1 + vh_below(r, 8));                                   /* real heap pointers (leaked deliberately, tiny) */
	}
}

static uint64_t *dset; static size_t dcap = 1 << 22, dcnt;
static void dset_add(uint64_t h) {
	size_t i; h = h * 0x9e3779b97f4a7c15ULL + 1; if (!h) h = 1;
	if (!dset) dset = calloc(dcap, 8);
	if (dcnt * 2 > dcap) return;
	i = h & (dcap - 1);
	while (dset[i]) { if (dset[i] == h) return; i = (i + 1) & (dcap - 1); }
	dset[i] = h; dcnt++;
}
static void make_pool(vh_rng *r) {
	int i, j, n = 0;
	static const uintptr_t fixed[] = { 0, 1, (uintptr_t)-1, (uintptr_t)INT_MAX, (uintptr_t)INT_MAX - 36, (uintptr_t)INT_MAX - 37, (uintptr_t)INT_MAX - 1,
		(uintptr_t)0x80000000u, (uintptr_t)0xffffffffu, ((uintptr_t)1 << 63), (((uintptr_t)1 << 63) | (uintptr_t)INT_MAX), (uintptr_t)-2, (uintptr_t)(unsigned)INT_MIN - 1 };
	for (i = 0; i < (int)(sizeof fixed / sizeof fixed[0]); i++) { int dup = 0; for (j = 0; j < n; j++) if (pool[j] == (ppointer)fixed[i]) dup = 1; if (!dup) pool[n++] = (ppointer)fixed[i]; }
	while (n < P) {
		int cls = (int)vh_below(r, 8); uintptr_t v = gen_pattern(r, cls); int dup = 0;
		for (j = 0; j < n; j++) if (pool[j] == (ppointer)v) dup = 1;
		if (dup) continue;
		st_class[cls]++;
		pool[n++] = (ppointer)v;
	}
}

static ppointer gen_value(vh_rng *r) {
	switch (vh_below(r, 6)) {
	case 0: return NULL;
	case 1: return (ppointer)(uintptr_t)-1;
	case 2: return (ppointer)(uintptr_t)vh_below(r, 6);      /* few distinct values: lookup_by_value returns several keys */
	case 3: return pool[vh_below(r, P)];
	default: return (ppointer)(uintptr_t)vh_next(r);
	}
}

static int cmp_ptr(const void *a, const void *b) { uintptr_t x = *(const uintptr_t *)a, y = *(const uintptr_t *)b; return x < y ? -1 : x > y; }

static pint val_cmp_low(pconstpointer a, pconstpointer b) { return ((uintptr_t)a & 7) == ((uintptr_t)b & 7) ? 0 : 1; }

static void cmp_list_multiset(PList *l, uintptr_t *exp, int nexp, const char *what) {
	static uintptr_t got[P + 8]; int n = 0, i; PList *c;
	for (c = l; c; c = c->next) { if (n < P + 8) got[n] = (uintptr_t)c->data; n++; }
	if ((psize)n != p_list_length(l)) { viol("list-length", "%s: walked %d nodes, p_list_length %zu", what, n, (size_t)p_list_length(l)); return; }
	if (n != nexp) { viol(what, "%s lists %d entries, model has %d", what, n, nexp); return; }
	qsort(got, n, sizeof got[0], cmp_ptr); qsort(exp, nexp, sizeof exp[0], cmp_ptr);
	for (i = 0; i < n; i++) if (got[i] != exp[i]) { viol(what, "%s content differs from the model (entry %d: %p vs %p)", what, i, (void *)got[i], (void *)exp[i]); return; }
}

static void check_lookup(int i) {
	ppointer g = p_hash_table_lookup(ht, pool[i]);
	ppointer e = present[i] ? val[i] : (ppointer)(uintptr_t)-1;
	if (present[i]) st_lookup_hit++; else st_lookup_miss++;
	if (g != e) viol(present[i] ? "lookup-value" : "lookup-absent", "lookup(%p) = %p, model %p (%s)", pool[i], g, e, present[i] ? "present" : "absent");
}

static void full_check(vh_rng *r) {
	static uintptr_t exp[P + 8]; int i, n; PList *l; ppointer probe; const char *save = cur_op;
	st_full++;
	for (i = 0; i < P && !abort_hist; i++) check_lookup(i);
	if (abort_hist) return;
	cur_op = "keys";
	for (n = 0, i = 0; i < P; i++) if (present[i]) exp[n++] = (uintptr_t)pool[i];
	l = p_hash_table_keys(ht); cmp_list_multiset(l, exp, n, "keys"); p_list_free(l); st_lists++;
	if (abort_hist) return;
	cur_op = "values";
	for (n = 0, i = 0; i < P; i++) if (present[i]) exp[n++] = (uintptr_t)val[i];
	l = p_hash_table_values(ht); cmp_list_multiset(l, exp, n, "values"); p_list_free(l); st_lists++;
	if (abort_hist) return;
	cur_op = "lookup_by_value";
	probe = vh_chance(r, 70) && nlive ? NULL : gen_value(r);
	if (probe == NULL && nlive) { int t; for (t = 0; t < 50; t++) { i = (int)vh_below(r, P); if (present[i]) { probe = val[i]; break; } } }
	for (n = 0, i = 0; i < P; i++) if (present[i] && val[i] == probe) exp[n++] = (uintptr_t)pool[i];
	l = p_hash_table_lookup_by_value(ht, probe, NULL); cmp_list_multiset(l, exp, n, "lookup_by_value"); p_list_free(l); st_lbv++;
	if (abort_hist) return;
	for (n = 0, i = 0; i < P; i++) if (present[i] && val_cmp_low(val[i], probe) == 0) exp[n++] = (uintptr_t)pool[i];
	l = p_hash_table_lookup_by_value(ht, probe, val_cmp_low); cmp_list_multiset(l, exp, n, "lookup_by_value"); p_list_free(l); st_lbv++;
	cur_op = save;
}

static void run_table(vh_rng *r, long long ops) {
	long long done = 0; int i;
	while (done < ops && vh_nviol < vh_max_viol) {
		long long hist = 200 + (long long)vh_below(r, 3000), h;
		int fill = 5 + (int)vh_below(r, 95);
		make_pool(r);
		memset(present, 0, sizeof present); nlive = 0; abort_hist = 0;
		ht = p_hash_table_new(); st_tables++;
		if (!ht) VH_DIE("p_hash_table_new");
		for (h = 0; h < hist && !abort_hist; h++, done++) {
			int i2 = (int)vh_below(r, P); int op = (int)vh_below(r, 100);
			st_ops++;
			if (op < fill / 2 + 20) {
				ppointer v = gen_value(r);
				cur_op = present[i2] ? "overwrite" : "insert";
				if (present[i2]) st_overwrite++; else { st_ins_new++; nlive++; }
				p_hash_table_insert(ht, pool[i2], v); dset_add((uint64_t)(uintptr_t)pool[i2]);
				present[i2] = 1; val[i2] = v;
			} else if (op < 75) {
				cur_op = present[i2] ? "remove" : "remove-absent";
				if (present[i2]) { st_rm_hit++; nlive--; } else st_rm_miss++;
				p_hash_table_remove(ht, pool[i2]);
				present[i2] = 0;
			} else cur_op = "lookup";
			check_lookup(i2);
			for (i = 0; i < 3 && !abort_hist; i++) check_lookup((int)vh_below(r, P));
			if (!abort_hist && vh_below(r, 48) == 0) full_check(r);
		}
		if (!abort_hist) full_check(r);
		cur_op = "free";
		p_hash_table_free(ht); ht = NULL;
	}
}

/* ---------------- PList ---------------- */
#define LCAP 300
static ppointer lm[LCAP]; static int ln;
static long long sl_ops, sl_append, sl_prepend, sl_rm_hit, sl_rm_miss, sl_rev, sl_free, sl_foreach; static int sl_maxlen;
static ppointer fe_got[LCAP + 4]; static int fe_n; static char fe_cookie;
static void fe_cb(ppointer data, ppointer ud) { if (ud != &fe_cookie) fe_n = -1000000; if (fe_n >= 0 && fe_n < LCAP + 4) fe_got[fe_n] = data; fe_n++; }

static void list_check(PList *l) {
	int n = 0; PList *c, *last = NULL;
	for (c = l; c; c = c->next) { if (n < ln && c->data != lm[n]) { viol("list-content", "node %d holds %p, model %p", n, c->data, lm[n]); return; } n++; last = c; if (n > LCAP + 4) break; }
	if (n != ln) { viol("list-length", "walked %d nodes, model %d", n, ln); return; }
	if (p_list_length(l) != (psize)ln) { viol("list-length", "p_list_length %zu model %d", (size_t)p_list_length(l), ln); return; }
	if (p_list_last(l) != last) { viol("list-last", "p_list_last != last walked node"); return; }
	if ((l == NULL) != (ln == 0)) viol("list-empty", "empty list must be NULL");
}

static void run_list(vh_rng *r, long long ops) {
	long long done = 0;
	while (done < ops && vh_nviol < vh_max_viol) {
		PList *l = NULL; long long hist = 20 + (long long)vh_below(r, 600), h; int nvals = 2 + (int)vh_below(r, 40);
		ln = 0; abort_hist = 0;
		for (h = 0; h < hist && !abort_hist; h++, done++) {
			int op = (int)vh_below(r, 100); ppointer d;
			switch (vh_below(r, 5)) { case 0: d = NULL; break; case 1: d = (ppointer)(uintptr_t)-1; break; default: d = (ppointer)(uintptr_t)(vh_below(r, nvals) * 0x100000001ULL); }
			sl_ops++;
			if (op < 30 && ln < LCAP) { cur_op = "append"; sl_append++; l = p_list_append(l, d); lm[ln++] = d; }
			else if (op < 50 && ln < LCAP) { cur_op = "prepend"; sl_prepend++; l = p_list_prepend(l, d); memmove(lm + 1, lm, sizeof lm[0] * ln); lm[0] = d; ln++; }
			else if (op < 75) {
				int i, f = -1; cur_op = "remove";
				if (ln && vh_chance(r, 30)) d = lm[vh_chance(r, 50) ? (vh_chance(r, 50) ? 0 : ln - 1) : (int)vh_below(r, ln)];
				for (i = 0; i < ln; i++) if (lm[i] == d) { f = i; break; }
				l = p_list_remove(l, d);
				if (f >= 0) { memmove(lm + f, lm + f + 1, sizeof lm[0] * (ln - f - 1)); ln--; sl_rm_hit++; } else sl_rm_miss++;
			}
			else if (op < 85) { int i; cur_op = "reverse"; sl_rev++; l = p_list_reverse(l); for (i = 0; i < ln / 2; i++) { ppointer t = lm[i]; lm[i] = lm[ln - 1 - i]; lm[ln - 1 - i] = t; } }
			else if (op < 97) {
				int i; cur_op = "foreach"; sl_foreach++; fe_n = 0;
				p_list_foreach(l, fe_cb, &fe_cookie);
				if (fe_n != ln) viol("foreach-count", "foreach visited %d, model %d", fe_n, ln);
				else for (i = 0; i < ln; i++) if (fe_got[i] != lm[i]) { viol("foreach-order", "foreach item %d differs", i); break; }
			}
			else { cur_op = "free"; sl_free++; p_list_free(l); l = NULL; ln = 0; }
			if (ln > sl_maxlen) sl_maxlen = ln;
			if (!abort_hist) list_check(l);
		}
		p_list_free(l);
	}
}

/* progress watchdog: a cycle in a bucket chain or in a list makes a library call loop for ever */
static void *cont_wd(void *a) {
	long long last = -1; int idle = 0; (void)a;
	for (;;) { long long p; sleep(1); p = __atomic_load_n(&st_ops, __ATOMIC_RELAXED) + __atomic_load_n(&sl_ops, __ATOMIC_RELAXED) + __atomic_load_n(&st_full, __ATOMIC_RELAXED);
		if (p != last) { last = p; idle = 0; } else if (++idle >= 30) { viol("never-returns", "no container operation finished for 30 s: a %s call does not return", cur_op); fflush(stdout); _exit(0); } }
	return NULL;
}
int main(int argc, char **argv) {
	vh_rng r; double t0 = vh_now(); int i;
	const char *mode = vh_arg(argc, argv, "--mode", "table");
	long long ops = vh_argi(argc, argv, "--ops", 100000);
	vh_seed(&r, (uint64_t)vh_argi(argc, argv, "--seed", 1) * 2654435761u + (mode[0] == 'l'));
	(void)max_chain;
	p_libsys_init();
	{ pthread_t wd; pthread_create(&wd, NULL, cont_wd, NULL); }
	if (!strcmp(mode, "table")) run_table(&r, ops); else run_list(&r, ops);
	p_libsys_shutdown();
	printf("{\"ev\":\"stats\",\"mode\":\"%s\",\"ops\":%lld,\"tables\":%lld,\"insert_new\":%lld,\"overwrite\":%lld,\"remove_hit\":%lld,\"remove_miss\":%lld,"
	       "\"distinct_keys\":%zu,\"lookup_hit\":%lld,\"lookup_miss\":%lld,\"full_checks\":%lld,\"list_dumps\":%lld,\"lookup_by_value\":%lld,\"key_classes\":[",
	       mode, st_ops + sl_ops, st_tables, st_ins_new, st_overwrite, st_rm_hit, st_rm_miss, dcnt, st_lookup_hit, st_lookup_miss, st_full, st_lists, st_lbv);
	for (i = 0; i < 8; i++) printf("%s%lld", i ? "," : "", st_class[i]);
	printf("],\"list\":{\"append\":%lld,\"prepend\":%lld,\"remove_hit\":%lld,\"remove_miss\":%lld,\"reverse\":%lld,\"foreach\":%lld,\"free\":%lld,\"maxlen\":%d},\"viol\":%d,\"wall\":%.2f}\n",
	       sl_append, sl_prepend, sl_rm_hit, sl_rm_miss, sl_rev, sl_foreach, sl_free, sl_maxlen, vh_nviol, vh_now() - t0);
	return 0;
}

/* See wrap_sys.h.  Every wrapper: count, decide by plan, inject or pass through to __real_*. */
#define _GNU_SOURCE
#include <errno.h>
#include <fcntl.h>
#include <poll.h>
#include <semaphore.h>
#include <signal.h>
#include <stdarg.h>
#include <string.h>
#include <sys/mman.h>
#include <sys/socket.h>
#include <sys/types.h>
#include <time.h>
#include <unistd.h>
#include "wrap_sys.h"

const char *w_names[W_N] = { "sem_wait", "sem_open", "shm_open", "clock_nanosleep", "nanosleep", "poll", "connect", "accept", "recv", "recvfrom",
	"send", "sendto", "close", "socket", "sem_post", "sem_close", "sem_unlink", "shm_unlink", "ftruncate", "mmap", "munmap" };

typedef struct { int mode; long k; int burst; int kinds; uint64_t seed; long calls; long injected; long by_kind[4]; } WPlan;
static WPlan plan[W_N];
__thread long w_t_fdcalls, w_t_polls, w_t_calls;
static long total_calls; static long crash_n = -1; static int crash_phase;
volatile int w_log_on; int w_log_ids[4096]; volatile int w_log_n;

static WFd fds[W_MAXFD]; static int fd_track; static long fd_double, fd_unowned;

void w_reset(void) { int i; for (i = 0; i < W_N; i++) memset(&plan[i], 0, sizeof plan[i]); }
void w_plan(int id, int mode, long k, int burst, int kinds, uint64_t seed) { plan[id].mode = mode; plan[id].k = k; plan[id].burst = burst < 1 ? 1 : burst; plan[id].kinds = kinds; plan[id].seed = seed; }
long w_calls(int id) { return __atomic_load_n(&plan[id].calls, __ATOMIC_RELAXED); }
long w_injected(int id) { return __atomic_load_n(&plan[id].injected, __ATOMIC_RELAXED); }
long w_injected_kind(int id, int kind) { int b = kind == WK_EINTR ? 0 : kind == WK_EAGAIN ? 1 : kind == WK_SHORT ? 2 : 3; return __atomic_load_n(&plan[id].by_kind[b], __ATOMIC_RELAXED); }
void w_crash_at(long n, int phase) { crash_n = n; crash_phase = phase; }
long w_total_calls(void) { return __atomic_load_n(&total_calls, __ATOMIC_RELAXED); }

static uint64_t mix(uint64_t x) { x ^= x >> 33; x *= 0xff51afd7ed558ccdULL; x ^= x >> 33; x *= 0xc4ceb9fe1a85ec53ULL; x ^= x >> 33; return x; }

/* returns 0 = pass through, else the kind to inject; `allowed` narrows plan kinds to what is legal for this call */
static int decide(int id, int allowed, long *callno) {
	WPlan *p = &plan[id]; long n = __atomic_add_fetch(&p->calls, 1, __ATOMIC_RELAXED); int hit = 0, kinds, k, cnt = 0, pick; uint64_t h;
	w_t_calls++;
	if (callno) *callno = n;
	if (w_log_on) { int i = __atomic_fetch_add(&w_log_n, 1, __ATOMIC_RELAXED); if (i < 4096) w_log_ids[i] = id; }
	if (p->mode == WM_OFF) return 0;
	h = mix(p->seed ^ ((uint64_t)id << 56) ^ (uint64_t)n);
	if (p->mode == WM_AT) hit = n >= p->k && n < p->k + p->burst;
	else if (p->mode == WM_EVERY) hit = p->k > 0 && n % p->k == 0;
	else hit = (long)(h % 100) < p->k;
	if (!hit) return 0;
	kinds = p->kinds & allowed;
	if (!kinds) return 0;
	for (k = 1; k <= 8; k <<= 1) if (kinds & k) cnt++;
	pick = (int)((h >> 20) % (uint64_t)cnt);
	for (k = 1; k <= 8; k <<= 1) if (kinds & k) { if (pick-- == 0) break; }
	__atomic_add_fetch(&p->injected, 1, __ATOMIC_RELAXED);
	__atomic_add_fetch(&p->by_kind[k == 1 ? 0 : k == 2 ? 1 : k == 4 ? 2 : 3], 1, __ATOMIC_RELAXED);
	return k;
}

/* crash points over the IPC call stream */
static void crash_point(int phase) {
	long n;
	if (phase == 0) n = __atomic_add_fetch(&total_calls, 1, __ATOMIC_RELAXED); else n = __atomic_load_n(&total_calls, __ATOMIC_RELAXED);
	if (crash_n >= 0 && n == crash_n && phase == crash_phase) kill(getpid(), SIGKILL);
}

/* ---- fd table ---- */
void w_fd_track_enable(int on) { fd_track = on; }
static void fd_opened(int fd) { if (fd >= 0 && fd < W_MAXFD) { fds[fd].open = 1; __atomic_add_fetch(&fds[fd].opens, 1, __ATOMIC_RELAXED); } }
void w_fd_mark_owned(int fd) { (void)fd; }
void w_fd_note_open(int fd) { fd_opened(fd); }
static void fd_closed(int fd, int rc) {
	if (fd < 0 || fd >= W_MAXFD) return;
	if (fds[fd].opens == 0) { if (fd_track) __atomic_add_fetch(&fd_unowned, 1, __ATOMIC_RELAXED); return; }
	if (!fds[fd].open) { __atomic_add_fetch(&fd_double, 1, __ATOMIC_RELAXED); fds[fd].double_close++; return; }
	if (rc == 0) { fds[fd].open = 0; fds[fd].closes++; }
}
int w_fd_is_tracked_open(int fd) { return fd >= 0 && fd < W_MAXFD && fds[fd].open; }
void w_fd_stats(long *opened, long *closed, long *still_open, long *double_close, long *unowned_close) {
	int i; long o = 0, c = 0, s = 0;
	for (i = 0; i < W_MAXFD; i++) { o += fds[i].opens; c += fds[i].closes; s += fds[i].open; }
	if (opened) *opened = o; if (closed) *closed = c; if (still_open) *still_open = s; if (double_close) *double_close = fd_double; if (unowned_close) *unowned_close = fd_unowned;
}

/* ---- real functions ---- */
int __real_sem_wait(sem_t *); sem_t *__real_sem_open(const char *, int, ...); int __real_shm_open(const char *, int, mode_t);
int __real_clock_nanosleep(clockid_t, int, const struct timespec *, struct timespec *); int __real_nanosleep(const struct timespec *, struct timespec *);
int __real_poll(struct pollfd *, nfds_t, int); int __real_connect(int, const struct sockaddr *, socklen_t); int __real_accept(int, struct sockaddr *, socklen_t *);
ssize_t __real_recv(int, void *, size_t, int); ssize_t __real_recvfrom(int, void *, size_t, int, struct sockaddr *, socklen_t *);
ssize_t __real_send(int, const void *, size_t, int); ssize_t __real_sendto(int, const void *, size_t, int, const struct sockaddr *, socklen_t);
int __real_close(int); int __real_socket(int, int, int); int __real_sem_post(sem_t *); int __real_sem_close(sem_t *); int __real_sem_unlink(const char *);
int __real_shm_unlink(const char *); int __real_ftruncate(int, off_t); void *__real_mmap(void *, size_t, int, int, int, off_t); int __real_munmap(void *, size_t);

static int is_stream(int fd) { int t = 0; socklen_t l = sizeof t; return getsockopt(fd, SOL_SOCKET, SO_TYPE, &t, &l) == 0 && t == SOCK_STREAM; }
static size_t shorten(size_t len, int id, long n) { uint64_t h = mix(plan[id].seed ^ (uint64_t)n * 31 ^ 0x5bd1e995); size_t s; if (len <= 1) return len; s = 1 + (size_t)(h % (len - 1)); if ((h >> 40) % 3 == 0) s = 1 + (size_t)((h >> 8) % (len < 16 ? len - 1 : 15)); return s; }

int __wrap_sem_wait(sem_t *s) { int r; crash_point(0); if (decide(W_SEM_WAIT, WK_EINTR, NULL)) { errno = EINTR; return -1; } r = __real_sem_wait(s); crash_point(1); return r; }
int __wrap_sem_post(sem_t *s) { int r; crash_point(0); decide(W_SEM_POST, 0, NULL); r = __real_sem_post(s); crash_point(1); return r; }
int __wrap_sem_close(sem_t *s) { int r; crash_point(0); decide(W_SEM_CLOSE, 0, NULL); r = __real_sem_close(s); crash_point(1); return r; }
int __wrap_sem_unlink(const char *n) { int r; crash_point(0); decide(W_SEM_UNLINK, 0, NULL); r = __real_sem_unlink(n); crash_point(1); return r; }
int __wrap_shm_unlink(const char *n) { int r; crash_point(0); decide(W_SHM_UNLINK, 0, NULL); r = __real_shm_unlink(n); crash_point(1); return r; }
int __wrap_ftruncate(int fd, off_t l) { int r; crash_point(0); decide(W_FTRUNCATE, 0, NULL); w_t_fdcalls += fd >= 0; r = __real_ftruncate(fd, l); crash_point(1); return r; }
void *__wrap_mmap(void *a, size_t l, int p, int f, int fd, off_t o) { void *r; crash_point(0); decide(W_MMAP, 0, NULL); r = __real_mmap(a, l, p, f, fd, o); crash_point(1); return r; }
int __wrap_munmap(void *a, size_t l) { int r; crash_point(0); decide(W_MUNMAP, 0, NULL); r = __real_munmap(a, l); crash_point(1); return r; }
int w_fd_exhausted;     /* while set, calls that need a new descriptor fail with EMFILE (descriptor table full) */
sem_t *__wrap_sem_open(const char *name, int oflag, ...) {
	sem_t *r; mode_t mode = 0; unsigned value = 0; va_list ap;
	if (oflag & O_CREAT) { va_start(ap, oflag); mode = va_arg(ap, mode_t); value = va_arg(ap, unsigned); va_end(ap); }
	else { va_start(ap, oflag); mode = va_arg(ap, mode_t); value = va_arg(ap, unsigned); va_end(ap); }   /* plibsys always passes four arguments */
	crash_point(0);
	if (w_fd_exhausted) { errno = EMFILE; return SEM_FAILED; }
	if (decide(W_SEM_OPEN, WK_EINTR, NULL)) { errno = EINTR; return SEM_FAILED; }
	r = __real_sem_open(name, oflag, mode, value); crash_point(1); return r;
}
int __wrap_shm_open(const char *name, int oflag, mode_t mode) {
	int r; crash_point(0);
	if (w_fd_exhausted) { errno = EMFILE; return -1; }
	if (decide(W_SHM_OPEN, WK_EINTR, NULL)) { errno = EINTR; return -1; }
	r = __real_shm_open(name, oflag, mode); if (r >= 0) fd_opened(r); crash_point(1); return r;
}
int __wrap_clock_nanosleep(clockid_t c, int fl, const struct timespec *rq, struct timespec *rm) {
	if (decide(W_CLOCK_NANOSLEEP, WK_EINTR, NULL)) { if (rm && !(fl & TIMER_ABSTIME)) *rm = *rq; return EINTR; }
	return __real_clock_nanosleep(c, fl, rq, rm);
}
int __wrap_nanosleep(const struct timespec *rq, struct timespec *rm) {
	if (decide(W_NANOSLEEP, WK_EINTR, NULL)) { if (rm) *rm = *rq; errno = EINTR; return -1; }
	return __real_nanosleep(rq, rm);
}
int __wrap_poll(struct pollfd *p, nfds_t n, int to) {
	int k; w_t_polls++; if (n > 0 && p[0].fd >= 0) w_t_fdcalls++;
	k = decide(W_POLL, WK_EINTR | WK_SPURIOUS, NULL);
	if (k == WK_EINTR) { errno = EINTR; return -1; }
	if (k == WK_SPURIOUS && n == 1) { p[0].revents = p[0].events & (POLLIN | POLLOUT); if (p[0].revents) return 1; }
	return __real_poll(p, n, to);
}
int __wrap_connect(int fd, const struct sockaddr *a, socklen_t l) { w_t_fdcalls += fd >= 0; if (decide(W_CONNECT, WK_EINTR, NULL)) { errno = EINTR; return -1; } return __real_connect(fd, a, l); }
int __wrap_accept(int fd, struct sockaddr *a, socklen_t *l) {
	int r, k; w_t_fdcalls += fd >= 0; k = decide(W_ACCEPT, WK_EINTR | WK_EAGAIN, NULL);
	if (k == WK_EINTR) { errno = EINTR; return -1; } if (k == WK_EAGAIN) { errno = EAGAIN; return -1; }
	r = __real_accept(fd, a, l); if (r >= 0) fd_opened(r); return r;
}
ssize_t __wrap_recv(int fd, void *b, size_t n, int f) {
	long cn; int k; w_t_fdcalls += fd >= 0; k = decide(W_RECV, WK_EINTR | WK_EAGAIN | (n > 1 && is_stream(fd) ? WK_SHORT : 0), &cn);
	if (k == WK_EINTR) { errno = EINTR; return -1; } if (k == WK_EAGAIN) { errno = EAGAIN; return -1; }
	if (k == WK_SHORT) n = shorten(n, W_RECV, cn);
	return __real_recv(fd, b, n, f);
}
ssize_t __wrap_recvfrom(int fd, void *b, size_t n, int f, struct sockaddr *a, socklen_t *l) {
	long cn; int k; w_t_fdcalls += fd >= 0; k = decide(W_RECVFROM, WK_EINTR | WK_EAGAIN | (n > 1 && is_stream(fd) ? WK_SHORT : 0), &cn);
	if (k == WK_EINTR) { errno = EINTR; return -1; } if (k == WK_EAGAIN) { errno = EAGAIN; return -1; }
	if (k == WK_SHORT) n = shorten(n, W_RECVFROM, cn);
	return __real_recvfrom(fd, b, n, f, a, l);
}
ssize_t __wrap_send(int fd, const void *b, size_t n, int f) {
	long cn; int k; w_t_fdcalls += fd >= 0; k = decide(W_SEND, WK_EINTR | WK_EAGAIN | (n > 1 && is_stream(fd) ? WK_SHORT : 0), &cn);
	if (k == WK_EINTR) { errno = EINTR; return -1; } if (k == WK_EAGAIN) { errno = EAGAIN; return -1; }
	if (k == WK_SHORT) n = shorten(n, W_SEND, cn);
	return __real_send(fd, b, n, f);
}
ssize_t __wrap_sendto(int fd, const void *b, size_t n, int f, const struct sockaddr *a, socklen_t l) {
	long cn; int k; w_t_fdcalls += fd >= 0; k = decide(W_SENDTO, WK_EINTR | WK_EAGAIN | (n > 1 && is_stream(fd) ? WK_SHORT : 0), &cn);
	if (k == WK_EINTR) { errno = EINTR; return -1; } if (k == WK_EAGAIN) { errno = EAGAIN; return -1; }
	if (k == WK_SHORT) n = shorten(n, W_SENDTO, cn);
	return __real_sendto(fd, b, n, f, a, l);
}
int __wrap_close(int fd) { int r; crash_point(0); decide(W_CLOSE, 0, NULL); w_t_fdcalls += fd >= 0; r = __real_close(fd); fd_closed(fd, r); crash_point(1); return r; }
int __wrap_socket(int d, int t, int p) { int r; decide(W_SOCKET, 0, NULL); r = __real_socket(d, t, p); if (r >= 0) fd_opened(r); return r; }

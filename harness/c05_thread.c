/* c05_thread: join/exit code/visibility, ref-counted handle life-cycle from the allocator log, TLS destructors (C05).
 * Default (asan/plain): tracking allocator installed; the free of every handle block is checked against the harness's
 * shadow reference count and the thread's finished flag.  HB_MODE (TSan): no tracking allocator, plain payloads.
 * Link with -Wl,--wrap=pthread_create,--wrap=pthread_attr_destroy: injected delays force the rare orders
 * (creator drops its reference before the thread starts; thread finishes before create returns). */
#include <plibsys.h>
#include <pthread.h>
#include <sched.h>
#include <limits.h>
#include "vh.h"
#ifndef HB_MODE
#include "vh_alloc.h"
#endif

static const char *scen = "-";
static void viol(const char *symptom, const char *fmt, ...) __attribute__((format(printf, 2, 3)));
static void viol(const char *symptom, const char *fmt, ...) {
	char key[200], buf[1000]; va_list ap;
	va_start(ap, fmt); vsnprintf(buf, sizeof buf, fmt, ap); va_end(ap);
	snprintf(key, sizeof key, "scenario=%s symptom=%s", scen, symptom);
	if (vh_nviol < vh_max_viol) vh_viol("C05", key, "%s", buf);
}

/* ---------------- delay injection at pthread_create / pthread_attr_destroy ---------------- */
static int inj_on; static uint64_t inj_seed = 1; static long long inj_start_delays, inj_creator_delays;
static uint64_t inj_next(void) { uint64_t x = __atomic_add_fetch(&inj_seed, 0x9E3779B97F4A7C15ULL, __ATOMIC_RELAXED); x ^= x >> 30; x *= 0xbf58476d1ce4e5b9ULL; x ^= x >> 27; x *= 0x94d049bb133111ebULL; return x ^ (x >> 31); }
typedef struct { void *(*fn)(void *); void *arg; int delay_us; } Tramp;
static void *tramp_fn(void *a) { Tramp t = *(Tramp *)a; free(a); if (t.delay_us) { struct timespec ts = { 0, t.delay_us * 1000L }; nanosleep(&ts, NULL); } return t.fn(t.arg); }
int __real_pthread_create(pthread_t *, const pthread_attr_t *, void *(*)(void *), void *);
int __real_pthread_attr_destroy(pthread_attr_t *);
int __wrap_pthread_create(pthread_t *t, const pthread_attr_t *at, void *(*fn)(void *), void *arg) {
	Tramp *tr; uint64_t h;
	if (!inj_on) return __real_pthread_create(t, at, fn, arg);
	tr = malloc(sizeof *tr); tr->fn = fn; tr->arg = arg; h = inj_next();
	tr->delay_us = (h % 4 == 0) ? (int)((h >> 8) % 2000) : 0; if (tr->delay_us) __atomic_add_fetch(&inj_start_delays, 1, __ATOMIC_RELAXED);
	{ int rc = __real_pthread_create(t, at, tramp_fn, tr); if (rc) free(tr); return rc; }
}
int __wrap_pthread_attr_destroy(pthread_attr_t *a) {
	if (inj_on) { uint64_t h = inj_next(); if (h % 4 == 0) { struct timespec ts = { 0, (long)((h >> 8) % 1500) * 1000L }; nanosleep(&ts, NULL); __atomic_add_fetch(&inj_creator_delays, 1, __ATOMIC_RELAXED); } }
	return __real_pthread_attr_destroy(a);
}

/* ---------------- handle registry (shadow references) ---------------- */
#define MAXH 4096
typedef struct { void *addr; int refs; volatile int finished; int freed; int by_unref; int live; } HEnt;
static HEnt hreg[MAXH]; static pthread_mutex_t hmu = PTHREAD_MUTEX_INITIALIZER;
static __thread int in_unref;
static long long st_threads, st_freed_by_unref, st_freed_at_exit, st_joined, st_detached, st_refs, st_tls_threads, st_seq_threads, st_seq_ops, st_seq_values, st_seq_replace_on_empty, st_seq_replace_with_null, st_first_use_races, st_foreign;
static long long bad_free_refs, bad_free_running;

static HEnt *h_register(void *addr, int refs) {
	int i; HEnt *e = NULL;
	pthread_mutex_lock(&hmu);
	for (i = 0; i < MAXH; i++) if (!hreg[i].live) { e = &hreg[i]; break; }
	if (!e) { pthread_mutex_unlock(&hmu); VH_DIE("handle registry full"); }
	e->addr = addr; e->refs = refs; e->finished = 0; e->freed = 0; e->by_unref = 0; e->live = 1;
	pthread_mutex_unlock(&hmu);
	return e;
}
#ifndef HB_MODE
static void on_free(void *addr) {
	int i;
	pthread_mutex_lock(&hmu);
	for (i = 0; i < MAXH; i++) if (hreg[i].live && !hreg[i].freed && hreg[i].addr == addr) {
		HEnt *e = &hreg[i];
		if (e->refs != 0) bad_free_refs++;
		if (!e->finished) bad_free_running++;
		e->freed = 1; e->by_unref = in_unref;
		if (in_unref) st_freed_by_unref++; else st_freed_at_exit++;
		break;
	}
	pthread_mutex_unlock(&hmu);
}
#endif
static void h_ref(HEnt *e, PUThread *t) { pthread_mutex_lock(&hmu); e->refs++; pthread_mutex_unlock(&hmu); p_uthread_ref(t); st_refs++; }
static void h_unref(HEnt *e, PUThread *t) { pthread_mutex_lock(&hmu); e->refs--; pthread_mutex_unlock(&hmu); in_unref = 1; p_uthread_unref(t); in_unref = 0; }

/* ---------------- thread bodies ---------------- */
typedef struct { int destroyed; int owner; } TVal;
typedef struct {
	PUThread *t; HEnt *he; int joinable, code, use_exit, work_us, slot;
	int payload[8];                      /* written by the thread (plain memory), read by the joiner */
	TVal v[3];
} Rec;
static PUThreadKey *key_a, *key_b; static long long tls_wrong_value, tls_set_local_destroyed, tls_replace_missing;
static void tv_destroy(ppointer p) { TVal *v = p; __atomic_add_fetch(&v->destroyed, 1, __ATOMIC_SEQ_CST); }

static void tls_sequence(Rec *g) {
	TVal *v = g->v;
	p_uthread_set_local(key_a, &v[0]); if (p_uthread_get_local(key_a) != &v[0]) __atomic_add_fetch(&tls_wrong_value, 1, __ATOMIC_RELAXED);
	p_uthread_set_local(key_a, &v[1]); if (__atomic_load_n(&v[0].destroyed, __ATOMIC_SEQ_CST) != 0) __atomic_add_fetch(&tls_set_local_destroyed, 1, __ATOMIC_RELAXED);
	sched_yield();
	if (p_uthread_get_local(key_a) != &v[1]) __atomic_add_fetch(&tls_wrong_value, 1, __ATOMIC_RELAXED);
	p_uthread_replace_local(key_a, &v[2]); if (__atomic_load_n(&v[1].destroyed, __ATOMIC_SEQ_CST) != 1) __atomic_add_fetch(&tls_replace_missing, 1, __ATOMIC_RELAXED);
	if (p_uthread_get_local(key_a) != &v[2]) __atomic_add_fetch(&tls_wrong_value, 1, __ATOMIC_RELAXED);
	p_uthread_set_local(key_b, &v[0]); p_uthread_set_local(key_b, NULL);     /* NULL left at exit: no destructor call; v[0] must stay undestroyed */
}
static ppointer body(ppointer a) {
	Rec *g = a; int i;
	for (i = 0; i < 8; i++) g->payload[i] = g->code ^ (i * 0x01010101);
	if (g->work_us) { struct timespec ts = { 0, g->work_us * 1000L }; nanosleep(&ts, NULL); }
	tls_sequence(g);
	if (g->he) g->he->finished = 1;
	if (g->use_exit) p_uthread_exit(g->code);
	/* "0 if its function simply returned" - whatever pointer the function returns (PUThreadFunc returns ppointer) */
	return (g->work_us ^ g->code) & 1 ? (ppointer)g : (g->code & 2) ? (ppointer)(uintptr_t)1 : NULL;
}

static int wait_until(volatile int *flag_or_null, int (*pred)(void *), void *arg, int ms) { int t; (void)flag_or_null; for (t = 0; t < ms * 5; t++) { if (pred(arg)) return 1; usleep(200); } return pred(arg); }
static int pred_freed(void *a) { HEnt *e = a; int f; pthread_mutex_lock(&hmu); f = e->freed; pthread_mutex_unlock(&hmu); return f; }
static int pred_destroyed(void *a) { TVal *v = a; return __atomic_load_n(&v->destroyed, __ATOMIC_SEQ_CST) >= 1; }

static void run_threads(vh_rng *r, int n, int alive) {
	static Rec rec[128]; int i, b, batch;
	static const int codes[] = { 0, 1, -1, INT_MIN, INT_MAX, 42, -77, 0x7ffffffe };
	if (alive > 128) alive = 128;
	for (b = 0; b < n && vh_nviol < vh_max_viol; b += batch) {
		batch = alive; if (b + batch > n) batch = n - b;
		scen = "create";
		for (i = 0; i < batch; i++) {
			Rec *g = &rec[i];
			memset(g, 0, sizeof *g);
			g->joinable = !vh_chance(r, 35); g->use_exit = vh_chance(r, 60);
			g->code = g->use_exit ? (vh_chance(r, 60) ? codes[vh_below(r, 8)] : (int)vh_next(r)) : 0;
			g->work_us = vh_chance(r, 50) ? 0 : (int)vh_below(r, 800);
#ifndef HB_MODE
			g->he = h_register(NULL, 1);
#endif
			g->t = vh_chance(r, 50) ? p_uthread_create(body, g, g->joinable, vh_chance(r, 30) ? "vf-worker-with-a-long-name" : NULL)
			                        : p_uthread_create_full(body, g, g->joinable, P_UTHREAD_PRIORITY_INHERIT, vh_chance(r, 30) ? 65536 : 0, "w");
			if (!g->t) { viol("create-failed", "p_uthread_create returned NULL"); if (g->he) g->he->live = 0; continue; }
			if (g->he) { pthread_mutex_lock(&hmu); g->he->addr = g->t; pthread_mutex_unlock(&hmu); }
			st_threads++;
			if (!g->joinable && vh_chance(r, 50)) {      /* creator drops its only reference at once (thread may not even have started) */
				scen = "detached-early-unref";
				if (p_uthread_join(g->t) != -1) viol("join-detached", "p_uthread_join on a detached thread did not return -1");
				if (g->he) h_unref(g->he, g->t); else p_uthread_unref(g->t);
				g->t = NULL; st_detached++;
			}
		}
		for (i = 0; i < batch; i++) {
			Rec *g = &rec[i]; int extra, k, held;
			if (!g->t) continue;
			extra = (int)vh_below(r, 3); held = 1 + extra;
			scen = "ref-unref";
			for (k = 0; k < extra; k++) { if (g->he) h_ref(g->he, g->t); else p_uthread_ref(g->t); }
			while (held > 1 && vh_chance(r, 50)) { if (g->he) h_unref(g->he, g->t); else p_uthread_unref(g->t); held--; }
			if (g->joinable) {
				int code, j;
				scen = "join";
				code = p_uthread_join(g->t); st_joined++;
				if (code != g->code) viol("exit-code", "join returned %d, thread exited with %d (%s)", code, g->code, g->use_exit ? "p_uthread_exit" : "plain return");
				if (g->he && !g->he->finished) viol("join-returned-early", "p_uthread_join returned before the thread function finished");
				for (j = 0; j < 8; j++) if (g->payload[j] != (g->code ^ (j * 0x01010101))) { viol("join-visibility", "memory written by the thread is not visible after join"); break; }
				if (__atomic_load_n(&g->v[2].destroyed, __ATOMIC_SEQ_CST) != 1) viol("tls-destructor-at-exit", "value left in TLS at thread exit destroyed %d times (expected exactly once) when join returned", g->v[2].destroyed);
			} else { scen = "join"; if (p_uthread_join(g->t) != -1) viol("join-detached", "p_uthread_join on a detached thread did not return -1"); st_detached++; }
			scen = "ref-unref";
			while (held > 0) { if (g->he) h_unref(g->he, g->t); else p_uthread_unref(g->t); held--; }
			g->t = NULL;
		}
		/* quiescence: every handle freed exactly once, TLS destructor counts */
		for (i = 0; i < batch; i++) {
			Rec *g = &rec[i];
			scen = "tls-destructors";
			if (!wait_until(NULL, pred_destroyed, &g->v[2], 30000)) viol("tls-destructor-at-exit", "value left in TLS at thread exit was never passed to the destroy notifier");
			if (g->he) { scen = "handle-lifecycle"; if (!wait_until(NULL, pred_freed, g->he, 30000)) viol("handle-never-freed", "thread handle not released after the last reference was dropped and the thread finished"); }
		}
		usleep(2000);
		for (i = 0; i < batch; i++) {
			Rec *g = &rec[i];
			scen = "tls-destructors";
			if (g->v[0].destroyed != 0) viol("tls-set-local-destroyed", "value overwritten with p_uthread_set_local (or replaced by NULL) was passed to the destroy notifier %d times", g->v[0].destroyed);
			if (g->v[1].destroyed != 1) viol("tls-replace-local", "value replaced with p_uthread_replace_local destroyed %d times (expected once)", g->v[1].destroyed);
			if (g->v[2].destroyed > 1) viol("tls-destructor-at-exit", "value left at exit destroyed %d times", g->v[2].destroyed);
			if (g->he) g->he->live = 0;
			st_tls_threads++;
		}
		scen = "handle-lifecycle";
		if (bad_free_refs) { viol("freed-while-referenced", "%lld handle blocks were freed while the harness still held a reference", bad_free_refs); bad_free_refs = 0; }
		if (bad_free_running) { viol("freed-while-running", "%lld handle blocks were freed before their thread function finished", bad_free_running); bad_free_running = 0; }
		scen = "tls-values";
		if (tls_wrong_value) { viol("tls-wrong-value", "p_uthread_get_local returned another value than the calling thread's last set (%lld times)", tls_wrong_value); tls_wrong_value = 0; }
		if (tls_set_local_destroyed) { viol("tls-set-local-destroyed", "p_uthread_set_local invoked the destroy notifier on the old value (%lld times)", tls_set_local_destroyed); tls_set_local_destroyed = 0; }
		if (tls_replace_missing) { viol("tls-replace-local", "p_uthread_replace_local did not destroy the old value exactly once before returning (%lld times)", tls_replace_missing); tls_replace_missing = 0; }
#ifndef HB_MODE
		if (va_bad_free) { scen = "handle-lifecycle"; viol("double-free", "%lld frees of blocks that are not live", va_bad_free); va_bad_free = 0; }
#endif
	}
}

/* ---------------- the last two references dropped at the same instant by two threads ---------------- */
static pthread_barrier_t ubar; static PUThread *u_target; static HEnt *u_ent;
static void *unref_racer(void *a) { (void)a; pthread_barrier_wait(&ubar); if (u_ent) h_unref(u_ent, u_target); else p_uthread_unref(u_target); return NULL; }
static ppointer quick_body(ppointer a) { HEnt *e = a; if (e) e->finished = 1; return NULL; }
static long long st_concurrent_unrefs;
static void run_concurrent_unref(int rounds) {
	int k;
	for (k = 0; k < rounds && vh_nviol < vh_max_viol; k++) {
		pthread_t a, b; HEnt *e = NULL; PUThread *t;
		scen = "concurrent-unref";
#ifndef HB_MODE
		e = h_register(NULL, 1);
#endif
		t = p_uthread_create(quick_body, e, TRUE, NULL);
		if (!t) { if (e) e->live = 0; continue; }
		if (e) { pthread_mutex_lock(&hmu); e->addr = t; pthread_mutex_unlock(&hmu); }
		p_uthread_join(t);                                     /* the thread's own reference is gone or about to go */
		if (e) h_ref(e, t); else p_uthread_ref(t);             /* two harness references */
		u_target = t; u_ent = e; pthread_barrier_init(&ubar, NULL, 2);
		__real_pthread_create(&a, NULL, unref_racer, NULL); __real_pthread_create(&b, NULL, unref_racer, NULL);
		pthread_join(a, NULL); pthread_join(b, NULL); pthread_barrier_destroy(&ubar);
		if (e) { if (!wait_until(NULL, pred_freed, e, 30000)) viol("handle-never-freed", "handle not released after two concurrent unrefs dropped the last references"); e->live = 0; }
#ifndef HB_MODE
		if (va_bad_free) { viol("double-free", "handle block released twice when the last two references were dropped concurrently (%lld frees of dead blocks)", va_bad_free); va_bad_free = 0; }
#endif
		st_concurrent_unrefs++;
	}
}

/* several threads, each owning a reference of its own, take and drop further references on one handle at the same time: the count must
 * neither lose an increment (handle freed while references exist, freed twice) nor a decrement (never freed) */
static PUThread *rs_target; static pthread_barrier_t rsbar; static long long st_ref_storm_pairs;
static void *ref_stormer(void *a) { long n = (long)(intptr_t)a, i; pthread_barrier_wait(&rsbar); for (i = 0; i < n; i++) { p_uthread_ref(rs_target); if ((i & 7) == 0) sched_yield(); p_uthread_unref(rs_target); } return NULL; }
static void run_ref_storm(int rounds, long pairs) {
	int k, i;
	for (k = 0; k < rounds && vh_nviol < vh_max_viol; k++) {
		pthread_t th[4]; HEnt *e = NULL; PUThread *t;
		scen = "concurrent-ref-unref";
#ifndef HB_MODE
		e = h_register(NULL, 1);
#endif
		t = p_uthread_create(quick_body, e, TRUE, NULL);
		if (!t) { if (e) e->live = 0; continue; }
		if (e) { pthread_mutex_lock(&hmu); e->addr = t; pthread_mutex_unlock(&hmu); }
		p_uthread_join(t);
		/* every stormer gets a reference of its own first (taken here, sequentially), so each ref/unref pair inside the storm is legal */
		for (i = 0; i < 4; i++) { if (e) h_ref(e, t); else p_uthread_ref(t); }
		rs_target = t; pthread_barrier_init(&rsbar, NULL, 4);
		for (i = 0; i < 4; i++) __real_pthread_create(&th[i], NULL, ref_stormer, (void *)(intptr_t)pairs);
		for (i = 0; i < 4; i++) pthread_join(th[i], NULL);
		pthread_barrier_destroy(&rsbar); st_ref_storm_pairs += 4 * pairs;
#ifndef HB_MODE
		if (bad_free_refs) { viol("freed-while-referenced", "the handle was freed while five references were outstanding (concurrent ref/unref pairs lost an increment)"); bad_free_refs = 0; if (e) e->live = 0; continue; }
#endif
		for (i = 0; i < 4; i++) { if (e) h_unref(e, t); else p_uthread_unref(t); }
		if (e) h_unref(e, t); else p_uthread_unref(t);           /* the creator's: the last one */
		if (e) { if (!wait_until(NULL, pred_freed, e, 30000)) viol("handle-never-freed", "handle not released after the last reference was dropped (concurrent ref/unref pairs lost a decrement)"); e->live = 0; }
#ifndef HB_MODE
		if (va_bad_free) { viol("double-free", "handle block released twice after concurrent ref/unref pairs (%lld frees of dead blocks)", va_bad_free); va_bad_free = 0; }
#endif
	}
}

/* ---------------- first-use race on a fresh TLS key ---------------- */
static PUThreadKey *race_key; static pthread_barrier_t rbar; static long long race_wrong;
static ppointer race_fn(ppointer a) {
	TVal *mine = a; int i;
	pthread_barrier_wait(&rbar);
	p_uthread_set_local(race_key, mine);
	for (i = 0; i < 20; i++) { if (p_uthread_get_local(race_key) != mine) __atomic_add_fetch(&race_wrong, 1, __ATOMIC_RELAXED); if (i == 10) sched_yield(); }
	return NULL;
}
static void run_first_use(vh_rng *r, int rounds, int maxt) {
	int k;
	for (k = 0; k < rounds && vh_nviol < vh_max_viol; k++) {
		int T = 2 + (int)vh_below(r, (uint64_t)maxt - 1), i; PUThread *th[64]; TVal vals[64];
#ifndef HB_MODE
		unsigned long mark = va_mark();
#endif
		scen = "tls-first-use-race";
		if (T > 64) T = 64;
		memset(vals, 0, sizeof vals); race_wrong = 0;
		race_key = p_uthread_local_new(tv_destroy);
		pthread_barrier_init(&rbar, NULL, (unsigned)T);
		for (i = 0; i < T; i++) th[i] = p_uthread_create(race_fn, &vals[i], TRUE, NULL);
		for (i = 0; i < T; i++) { if (!th[i]) { viol("create-failed", "create"); continue; } p_uthread_join(th[i]); p_uthread_unref(th[i]); }
		pthread_barrier_destroy(&rbar);
		for (i = 0; i < T; i++) if (vals[i].destroyed != 1) { viol("tls-destructor-at-exit", "first-use race: value of thread %d destroyed %d times", i, vals[i].destroyed); break; }
		if (race_wrong) viol("tls-wrong-value", "first-use race: a thread read another thread's TLS value %lld times", race_wrong);
		p_uthread_local_free(race_key);
#ifndef HB_MODE
		{ int t, n = 0; for (t = 0; t < 500; t++) { n = va_count_new(mark); if (!n) break; usleep(2000); } if (n) viol("tls-key-block-leaked", "first-use race with %d threads: %d blocks allocated during the race are still live (loser's key block not freed?)", T, n); }
#endif
		st_first_use_races++;
	}
}

/* ---------------- foreign threads ---------------- */
static void *foreign_fn(void *a) {
	PUThread *me = p_uthread_current(), *again = p_uthread_current(); HEnt *e = NULL; (void)a;
	scen = "foreign-thread";
	if (!me || me != again) viol("current-unstable", "p_uthread_current returned %p then %p in the same foreign thread", (void *)me, (void *)again);
#ifndef HB_MODE
	if (me) { e = h_register(me, 0); }
#endif
	if (p_uthread_current() != me) viol("current-unstable", "p_uthread_current changed");
	if (e) e->finished = 1;
	return e;
}
/* ---- random TLS histories against a per-thread slot model -------------------------------------------------
 * K keys (every second one without a notifier), T threads (library threads, joinable or detached, and the main thread),
 * each runs L random operations set/replace/get with fresh values or NULL.  Model per (thread,key): current value.
 * Expected notifier runs per value: 1 if it was the slot's content when p_uthread_replace_local was called or when the
 * thread exited, else 0 (overwritten by set_local: never).  The notifier must never be handed NULL. */
#define SQ_KEYS 4
#define SQ_LEN 48
typedef struct { int destroyed; int expect; int key; } SqVal;
typedef struct { uint64_t seed; SqVal v[SQ_LEN * SQ_KEYS + 4]; int nv; void *left[SQ_KEYS]; int done; char trace[SQ_LEN * 8 + 8]; int wrong_get, bad_now; char bad_what[120]; } SqThread;
static PUThreadKey *sq_key[SQ_KEYS]; static long long sq_null_calls, sq_foreign_calls; static long long st_seq_threads, st_seq_ops, st_seq_replace_on_empty, st_seq_replace_with_null, st_seq_values;
static void sq_destroy(ppointer p) { SqVal *v = p; if (!p) { __atomic_add_fetch(&sq_null_calls, 1, __ATOMIC_SEQ_CST); return; } __atomic_add_fetch(&v->destroyed, 1, __ATOMIC_SEQ_CST); }
static void sq_run(SqThread *q) {
	vh_rng r; int i, o = 0; void *cur[SQ_KEYS] = { 0 };
	vh_seed(&r, q->seed);
	for (i = 0; i < SQ_LEN; i++) {
		int k = (int)vh_below(&r, SQ_KEYS), op = (int)vh_below(&r, 10), has_notifier = !(k & 1); SqVal *nv = NULL, *old = cur[k];
		if (vh_below(&r, 4) != 0) { nv = &q->v[q->nv++]; nv->key = k; }
		if (p_uthread_get_local(sq_key[k]) != cur[k]) q->wrong_get++;
		if (op < 4) {          /* set: the old value is simply forgotten */
			p_uthread_set_local(sq_key[k], nv); o += snprintf(q->trace + o, sizeof q->trace - (size_t)o, "s%d%c ", k, nv ? 'v' : '0');
			if (old && __atomic_load_n(&old->destroyed, __ATOMIC_SEQ_CST) != old->expect && !q->bad_now) { q->bad_now = 1; snprintf(q->bad_what, sizeof q->bad_what, "set_local ran the notifier on the overwritten value"); }
		} else if (op < 9) {   /* replace: the old value is destroyed once, now, if the key has a notifier */
			if (old && has_notifier) old->expect = 1;
			if (!old) __atomic_add_fetch(&st_seq_replace_on_empty, 1, __ATOMIC_RELAXED);
			if (!nv && old) __atomic_add_fetch(&st_seq_replace_with_null, 1, __ATOMIC_RELAXED);
			p_uthread_replace_local(sq_key[k], nv); o += snprintf(q->trace + o, sizeof q->trace - (size_t)o, "r%d%c ", k, nv ? 'v' : '0');
			if (old && __atomic_load_n(&old->destroyed, __ATOMIC_SEQ_CST) != old->expect && !q->bad_now) { q->bad_now = 1; snprintf(q->bad_what, sizeof q->bad_what, "after replace_local(%s) on a %s the old value was destroyed %d times, expected %d", nv ? "value" : "NULL", has_notifier ? "key with notifier" : "key without notifier", old->destroyed, old->expect); }
		} else { if (p_uthread_get_local(sq_key[k]) != cur[k]) q->wrong_get++; continue; }
		cur[k] = nv;
		if (p_uthread_get_local(sq_key[k]) != cur[k]) q->wrong_get++;
	}
	for (i = 0; i < SQ_KEYS; i++) { q->left[i] = cur[i]; if (cur[i] && !(i & 1)) ((SqVal *)cur[i])->expect = 1; }      /* left at thread exit */
	__atomic_add_fetch(&st_seq_ops, SQ_LEN, __ATOMIC_RELAXED);
}
static ppointer sq_body(ppointer a) { SqThread *q = a; sq_run(q); __atomic_store_n(&q->done, 1, __ATOMIC_SEQ_CST); return NULL; }
static void *sq_foreign_body(void *a) { sq_body(a); return NULL; }
static void sq_check(SqThread *q, const char *kind) {
	int i;
	if (q->wrong_get) viol("tls-wrong-value", "random TLS history (%s thread): p_uthread_get_local differed from the thread's own last set/replace %d times [%s]", kind, q->wrong_get, q->trace);
	if (q->bad_now) viol("tls-history-notifier", "random TLS history (%s thread): %s [%s]", kind, q->bad_what, q->trace);
	for (i = 0; i < q->nv; i++) if (q->v[i].key >= 0 && __atomic_load_n(&q->v[i].destroyed, __ATOMIC_SEQ_CST) != q->v[i].expect) {
		viol("tls-history-notifier", "random TLS history (%s thread): value #%d of key %d (%s notifier) was destroyed %d times after the thread ended, expected %d [%s]", kind, i, q->v[i].key, (q->v[i].key & 1) ? "no" : "with", q->v[i].destroyed, q->v[i].expect, q->trace); break; }
	st_seq_values += q->nv;
}
static void run_tls_sequences(vh_rng *r, int rounds, int maxt) {
	int round, i;
	scen = "tls-history";
	for (i = 0; i < SQ_KEYS; i++) sq_key[i] = p_uthread_local_new((i & 1) ? NULL : sq_destroy);
	for (round = 0; round < rounds && vh_nviol < vh_max_viol; round++) {
		int T = 1 + (int)vh_below(r, (uint64_t)maxt); SqThread *q = calloc((size_t)T, sizeof *q); PUThread **th = calloc((size_t)T, sizeof *th); pthread_t *pt = calloc((size_t)T, sizeof *pt); int *kind = calloc((size_t)T, sizeof *kind);
		for (i = 0; i < T; i++) { int j; q[i].seed = vh_next(r); for (j = 0; j < SQ_LEN * SQ_KEYS + 4; j++) q[i].v[j].key = -1; kind[i] = (int)vh_below(r, 8); }
		for (i = 0; i < T; i++) {
			if (kind[i] == 0) { if (pthread_create(&pt[i], NULL, sq_foreign_body, &q[i])) kind[i] = -1; }                   /* thread not created by the library */
			else { th[i] = p_uthread_create(sq_body, &q[i], kind[i] != 1, NULL); if (!th[i]) kind[i] = -1; }                 /* kind 1: detached */
		}
		for (i = 0; i < T; i++) {
			if (kind[i] == 0) pthread_join(pt[i], NULL);
			else if (kind[i] == 1) { int w; for (w = 0; w < 100000 && !__atomic_load_n(&q[i].done, __ATOMIC_SEQ_CST); w++) usleep(100); p_uthread_unref(th[i]); }
			else if (kind[i] > 1) { p_uthread_join(th[i]); p_uthread_unref(th[i]); }
		}
		/* destructors of a detached thread run after its function returned: wait for the values it left behind */
		for (i = 0; i < T; i++) if (kind[i] == 1) { int k2, w; for (k2 = 0; k2 < SQ_KEYS; k2 += 2) { SqVal *lv = q[i].left[k2]; for (w = 0; lv && w < 50000 && !__atomic_load_n(&lv->destroyed, __ATOMIC_SEQ_CST); w++) usleep(100); } }
		for (i = 0; i < T; i++) if (kind[i] >= 0) { sq_check(&q[i], kind[i] == 0 ? "foreign" : kind[i] == 1 ? "detached" : "joinable"); st_seq_threads++; }
		free(q); free(th); free(pt); free(kind);
	}
	if (sq_null_calls) viol("tls-notifier-null", "the destroy notifier was called with NULL %lld times (it must run only for non-NULL values)", sq_null_calls);
	for (i = 0; i < SQ_KEYS; i++) p_uthread_local_free(sq_key[i]);
}

static void run_foreign(int n) {
	int i;
	for (i = 0; i < n && vh_nviol < vh_max_viol; i++) {
		pthread_t t; void *ret = NULL;
		if (__real_pthread_create(&t, NULL, foreign_fn, NULL)) continue;
		pthread_join(t, &ret);
		scen = "foreign-thread";
		if (ret) { HEnt *e = ret; if (!wait_until(NULL, pred_freed, e, 30000)) viol("handle-never-freed", "implicit handle of a foreign thread not released at thread exit"); e->live = 0; }
		st_foreign++;
	}
}

int main(int argc, char **argv) {
	vh_rng r; double t0 = vh_now(); int n = (int)vh_argi(argc, argv, "--threads", 500), alive = (int)vh_argi(argc, argv, "--alive", 16), races = (int)vh_argi(argc, argv, "--races", 100), foreign = (int)vh_argi(argc, argv, "--foreign", 50);
#ifndef HB_MODE
	PMemVTable vt;
#endif
	vh_seed(&r, (uint64_t)vh_argi(argc, argv, "--seed", 1) * 0xD6E8FEB86659FD93ULL); inj_seed = vh_next(&r);
#ifndef HB_MODE
	vt = va_vtable(); va_want_bt = 0; va_free_hook = on_free;
	p_libsys_init_full(&vt);
#else
	p_libsys_init();
#endif
	key_a = p_uthread_local_new(tv_destroy); key_b = p_uthread_local_new(tv_destroy);
	inj_on = !vh_flag(argc, argv, "--no-delays");
	run_threads(&r, n, alive);
	run_concurrent_unref((int)vh_argi(argc, argv, "--unref-races", 300));
	run_ref_storm((int)vh_argi(argc, argv, "--ref-storms", 20), 3000);
	run_first_use(&r, races, alive < 4 ? 4 : alive);
	run_foreign(foreign);
	run_tls_sequences(&r, (int)vh_argi(argc, argv, "--tls-histories", 200), alive < 8 ? alive : 8);
	inj_on = 0;
	p_uthread_local_free(key_a); p_uthread_local_free(key_b);
	p_libsys_shutdown();
	printf("{\"ev\":\"stats\",\"threads\":%lld,\"joined\":%lld,\"detached\":%lld,\"explicit_refs\":%lld,\"handles_freed_by_harness_unref\":%lld,\"handles_freed_at_thread_exit\":%lld,\"tls_threads\":%lld,"
	       "\"tls_history_threads\":%lld,\"tls_history_ops\":%lld,\"tls_history_values\":%lld,\"tls_replace_on_empty_slot\":%lld,\"tls_replace_with_null\":%lld,\"first_use_races\":%lld,\"concurrent_ref_unref_pairs\":%lld,\"concurrent_unref_races\":%lld,\"foreign_threads\":%lld,\"delayed_thread_starts\":%lld,\"delayed_creators\":%lld,\"viol\":%d,\"wall\":%.2f}\n",
	       st_threads, st_joined, st_detached, st_refs, st_freed_by_unref, st_freed_at_exit, st_tls_threads, st_seq_threads, st_seq_ops, st_seq_values, st_seq_replace_on_empty, st_seq_replace_with_null, st_first_use_races, st_ref_storm_pairs, st_concurrent_unrefs, st_foreign, inj_start_delays, inj_creator_delays, vh_nviol, vh_now() - t0);
	return 0;
}

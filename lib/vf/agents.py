"""Line-protocol agent processes (harness/ipc_agent.c): one reader thread per agent, call/return with time-outs."""
import os, queue, signal, subprocess, threading, time, hashlib

from . import core


class AgentTimeout(Exception):
    pass


class AgentDied(Exception):
    pass


class Agent:
    def __init__(self, exe, variant="asan", extra_env=None, prefix_cmd=None, name="agent"):
        self.name = name
        cmd = (prefix_cmd or []) + [exe]
        self.p = subprocess.Popen(cmd, stdin=subprocess.PIPE, stdout=subprocess.PIPE, stderr=subprocess.PIPE, env=core.env_for(variant, extra_env), start_new_session=True)
        self.q = queue.Queue()
        self.bg = []
        self.diag = []
        self.err = b""
        self.log = []
        threading.Thread(target=self._rd, daemon=True).start()
        threading.Thread(target=self._rderr, daemon=True).start()
        r = self._get(20)
        if not r or not r.startswith("ready"):
            raise AgentDied("%s did not start: %r %s" % (name, r, self.err[-500:]))
        self.pid = int(r.split()[1])

    def _rd(self):
        for line in self.p.stdout:
            self.q.put(line.decode("utf-8", "replace").rstrip("\n"))
        self.q.put(None)

    def _rderr(self):
        self.err = self.p.stderr.read()

    def _get(self, timeout):
        deadline = time.time() + timeout
        while True:
            left = deadline - time.time()
            if left <= 0:
                return "__timeout__"
            try:
                line = self.q.get(timeout=left)
            except queue.Empty:
                return "__timeout__"
            if line is None:
                return None
            if line.startswith("bg "):
                self.bg.append(line)
                continue
            if line.startswith("** "):          # library diagnostics (P_ERROR / P_WARNING go to stdout)
                self.diag.append(line)
                continue
            return line

    def send(self, line):
        self.log.append(("call", time.monotonic(), line))
        try:
            self.p.stdin.write((line + "\n").encode())
            self.p.stdin.flush()
        except (BrokenPipeError, OSError):
            raise AgentDied("%s: pipe closed on %r" % (self.name, line))

    def recv(self, timeout=20):
        r = self._get(timeout)
        self.log.append(("ret", time.monotonic(), r))
        if r == "__timeout__":
            raise AgentTimeout("%s: no answer within %ss" % (self.name, timeout))
        if r is None:
            raise AgentDied("%s died (rc=%s): %s" % (self.name, self.p.poll(), self.err[-800:].decode("utf-8", "replace")))
        return r

    def cmd(self, line, timeout=20):
        self.send(line)
        return self.recv(timeout)

    def poll_bg(self, tag, timeout):
        """wait for a 'bg <tag> ...' line"""
        deadline = time.time() + timeout
        while True:
            for b in self.bg:
                if b.split()[1] == tag:
                    self.bg.remove(b)
                    return b
            left = deadline - time.time()
            if left <= 0:
                return None
            try:
                line = self.q.get(timeout=min(left, 0.05))
            except queue.Empty:
                continue
            if line is None:
                return None
            if line.startswith("bg "):
                self.bg.append(line)
            elif line.startswith("** "):
                self.diag.append(line)
            else:
                self.q.put(line)      # not ours; put back (single consumer, order preserved enough for our usage)
                time.sleep(0.001)

    def alive(self):
        return self.p.poll() is None

    def kill(self):
        try:
            os.killpg(self.p.pid, signal.SIGKILL)
        except OSError:
            pass
        try:
            self.p.wait(timeout=5)
        except Exception:
            pass

    def close(self):
        if self.alive():
            try:
                self.send("quit")
                self.p.wait(timeout=5)
            except Exception:
                self.kill()
        return self.p.returncode

    def wait_exit(self, timeout=10):
        try:
            self.p.wait(timeout=timeout)
        except subprocess.TimeoutExpired:
            return None
        return self.p.returncode


def ipc_key(name, suffix):
    return "/" + hashlib.sha1((name + suffix).encode()).hexdigest()[:13]


def sem_path(name):
    return "/dev/shm/sem." + ipc_key(name, "_p_sem_object")[1:]


def shm_path(name):
    return "/dev/shm" + ipc_key(name, "_p_shm_object")


def shm_lock_path(name):
    k = ipc_key(name, "_p_shm_object")
    return "/dev/shm/sem." + ipc_key(k, "_p_sem_object")[1:]


def sem_file_value(path):
    """glibc named semaphore file: 64-bit word, value in the low 32 bits (x86-64).  None if the file does not exist."""
    try:
        with open(path, "rb") as f:
            b = f.read(8)
    except OSError:
        return None
    if len(b) < 8:
        return None
    return int.from_bytes(b[:4], "little")


def sweep(paths):
    for p in paths:
        try:
            os.unlink(p)
        except OSError:
            pass


def name_family(rng, base, count):
    """`count` distinct IPC names for one history.  Besides plain short names: names longer than any file-name limit that
    differ only in their last characters (a key derived from a truncated name would merge them), one name being a prefix of
    another, and names differing only in the first character or in letter case."""
    shape = rng.choice(["short", "short", "long-tail", "prefix", "case"])
    tags = "abc"[:count]
    if shape == "long-tail":
        pad = "x" * rng.choice([230, 256, 300, 700])
        return [base + "-" + pad + c for c in tags], shape
    if shape == "prefix":
        return [base + "-n" + "n" * i for i in range(count)], shape
    if shape == "case":
        return [(c if i % 2 else c.upper()) + base + "-q" for i, c in enumerate(tags)] if count > 1 else [base + "-Q"], shape
    return [base + "-" + c for c in tags], shape

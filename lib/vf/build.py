"""Build variants of /repo (out of tree, under /verif/build/<variant>) and link harness drivers.

Every check calls ensure_lib()/driver() first, so whatever is in /repo's working tree right now is
what gets compiled (ninja makes it incremental).  A per-variant flock lets checks run in parallel.
"""
import fcntl, os, subprocess, sys, hashlib, time

VERIF = os.path.dirname(os.path.dirname(os.path.dirname(os.path.abspath(__file__))))
REPO = os.environ.get("VERIF_REPO", "/repo")
BUILD = os.path.join(VERIF, "build")
HARNESS = os.path.join(VERIF, "harness")
GUARD = "PLIBSYS_VERIF"

ASAN = "-O1 -g -fsanitize=address,undefined -fno-sanitize-recover=all -fno-omit-frame-pointer"
TSAN = "-O1 -g -fsanitize=thread -fno-omit-frame-pointer"
PLAIN = "-O2 -g -fno-omit-frame-pointer"

VARIANTS = {
    "plain":        dict(cc="gcc", cflags=PLAIN, cmake=[]),
    "asan":         dict(cc="gcc", cflags=ASAN, cmake=[]),
    "tsan":         dict(cc="gcc", cflags=TSAN, cmake=[]),
    "plain-sync":   dict(cc="gcc", cflags=PLAIN, cmake=["-DPLIBSYS_ATOMIC_MODEL=sync"]),
    "asan-sync":    dict(cc="gcc", cflags=ASAN, cmake=["-DPLIBSYS_ATOMIC_MODEL=sync"]),
    "plain-simgen": dict(cc="gcc", cflags=PLAIN, cmake=["-DPLIBSYS_ATOMIC_MODEL=sim", "-DPLIBSYS_RWLOCK_MODEL=general"]),
    "asan-simgen":  dict(cc="gcc", cflags=ASAN, cmake=["-DPLIBSYS_ATOMIC_MODEL=sim", "-DPLIBSYS_RWLOCK_MODEL=general"]),
    "tsan-simgen":  dict(cc="gcc", cflags=TSAN, cmake=["-DPLIBSYS_ATOMIC_MODEL=sim", "-DPLIBSYS_RWLOCK_MODEL=general"]),
    "clangfuzz":    dict(cc="clang", cflags="-O1 -g -fsanitize=fuzzer-no-link,address,undefined -fno-sanitize-recover=all -fno-omit-frame-pointer -fno-sanitize=object-size", cmake=[]),
}


class BuildError(Exception):
    pass


def _run(cmd, cwd=None, log=None):
    p = subprocess.run(cmd, cwd=cwd, stdout=subprocess.PIPE, stderr=subprocess.STDOUT, text=True)
    if log:
        with open(log, "a") as f:
            f.write("$ " + " ".join(cmd) + "\n" + p.stdout + "\n")
    if p.returncode != 0:
        raise BuildError("command failed: %s\n%s" % (" ".join(cmd), p.stdout[-4000:]))
    return p.stdout


class _Lock:
    def __init__(self, path):
        self.path = path

    def __enter__(self):
        os.makedirs(os.path.dirname(self.path), exist_ok=True)
        self.f = open(self.path, "w")
        fcntl.flock(self.f, fcntl.LOCK_EX)
        return self

    def __exit__(self, *a):
        fcntl.flock(self.f, fcntl.LOCK_UN)
        self.f.close()


def vdir(variant):
    return os.path.join(BUILD, variant)


def ensure_lib(variant):
    """Configure (first time) and (re)build libplibsysstatic.a of `variant` from /repo's working tree."""
    v = VARIANTS[variant]
    d = vdir(variant)
    with _Lock(os.path.join(BUILD, ".lock-" + variant)):
        os.makedirs(d, exist_ok=True)
        log = os.path.join(d, "build.log")
        stamp = os.path.join(d, "build.ninja")
        if not os.path.exists(stamp):
            _run(["cmake", "-G", "Ninja", "-S", REPO, "-B", d,
                  "-DPLIBSYS_TESTS=OFF", "-DPLIBSYS_BUILD_DOC=OFF", "-DCMAKE_BUILD_TYPE=None",
                  "-DCMAKE_C_COMPILER=" + v["cc"],
                  "-DCMAKE_C_FLAGS=%s -D%s" % (v["cflags"], GUARD)] + v["cmake"], log=log)
        _run(["ninja", "-C", d, "plibsysstatic"], log=log)
    lib = os.path.join(d, "src", "libplibsysstatic.a")
    if not os.path.exists(lib):
        raise BuildError("no static library in " + d)
    return lib


def lib_models(variant):
    """Return the models cmake actually selected for a variant (from the generated config summary)."""
    d = vdir(variant)
    out = {}
    try:
        txt = open(os.path.join(d, "build.ninja")).read()
        for m in ("patomic", "pspinlock", "prwlock", "psemaphore", "pshm", "pmutex"):
            import re
            r = re.search(r"src/%s-([a-z0-9]+)\.c" % m, txt)
            if r:
                out[m] = r.group(1)
    except OSError:
        pass
    return out


def driver(variant, name, sources, wraps=(), defines=(), extra=(), cxx=False):
    """Compile and link harness sources against the variant's static library -> path of executable."""
    lib = ensure_lib(variant)
    v = VARIANTS[variant]
    d = os.path.join(vdir(variant), "drv")
    out = os.path.join(d, name)
    srcs = [s if os.path.isabs(s) else os.path.join(HARNESS, s) for s in sources]
    key = hashlib.sha1(repr((srcs, tuple(wraps), tuple(defines), tuple(extra), v["cflags"])).encode()).hexdigest()[:12]
    keyfile = out + ".key"
    with _Lock(os.path.join(BUILD, ".lock-" + variant + "-" + name)):
        os.makedirs(d, exist_ok=True)
        deps = srcs + [lib] + [os.path.join(HARNESS, f) for f in os.listdir(HARNESS) if f.endswith(".h")]
        newest = max(os.path.getmtime(p) for p in deps)
        if os.path.exists(out) and os.path.getmtime(out) >= newest and os.path.exists(keyfile) and open(keyfile).read() == key:
            return out
        cc = v["cc"]
        cflags = v["cflags"].replace("-fsanitize=fuzzer-no-link", "-fsanitize=fuzzer") if "fuzz" in name else v["cflags"].replace("fuzzer-no-link,", "")
        cmd = [cc] + cflags.split() + ["-D" + GUARD, "-D_GNU_SOURCE", "-Wall", "-Wno-unused-function",
               "-I" + os.path.join(REPO, "src"), "-I" + os.path.join(vdir(variant), "src"), "-I" + HARNESS]
        cmd += ["-D" + x for x in defines]
        cmd += ['-DVH_VARIANT="%s"' % variant]
        cmd += srcs + ["-o", out + ".tmp"]
        cmd += ["-Wl,--wrap=" + w for w in wraps]
        cmd += [lib, "-pthread", "-lrt", "-ldl", "-lm", "-rdynamic"] + list(extra)
        _run(cmd, log=os.path.join(vdir(variant), "build.log"))
        os.replace(out + ".tmp", out)
        with open(keyfile, "w") as f:
            f.write(key)
    return out


def ensure_all(variants=None, jobs=4):
    import concurrent.futures as cf
    vs = list(variants or VARIANTS)
    with cf.ThreadPoolExecutor(max_workers=jobs) as ex:
        list(ex.map(ensure_lib, vs))


if __name__ == "__main__":
    t = time.time()
    ensure_all(sys.argv[1:] or None)
    print("built %s in %.1fs" % (",".join(sys.argv[1:] or VARIANTS), time.time() - t))

WRAPS_ALL = ["sem_wait", "sem_open", "shm_open", "clock_nanosleep", "nanosleep", "poll", "connect", "accept", "recv", "recvfrom",
             "send", "sendto", "close", "socket", "sem_post", "sem_close", "sem_unlink", "shm_unlink", "ftruncate", "mmap", "munmap"]

"""C16: INI parser robustness (mutated/random/fuzzed bytes) and documented-grammar conformance (generated files)."""
import json, os, random, shutil, tempfile, concurrent.futures as cf

from .. import build, core

LEVEL = "exploration"

NAME = "abcdefghijklmnopqrstuvwxyzABCDEFGHIJKLMNOPQRSTUVWXYZ0123456789_.-"
PLAIN = "".join(chr(c) for c in range(0x21, 0x7f) if chr(c) not in "#;\"'") + " \t"
QUOTED = "".join(chr(c) for c in range(0x20, 0x7f)) + "\t"
BOMS = [b"", b"", b"", b"\xef\xbb\xbf", b"\xfe\xff", b"\xff\xfe", b"\x00\x00\xfe\xff", b"\xff\xfe\x00\x00"]
UTF = ["é", "Ж", "€", "中"]


def blanks(r, lo=0, hi=3):
    return "".join(r.choice(" \t") for _ in range(r.randint(lo, hi)))


def name(r, lo=1, hi=12):
    return "".join(r.choice(NAME) for _ in range(r.randint(lo, hi)))


def comment_text(r):
    n = r.randint(0, 30)
    s = "".join(r.choice(QUOTED) for _ in range(n))
    return s


def gen_value(r, budget):
    """returns (text as written after '=', expected string, type, typed expectation)"""
    k = r.random()
    if k < 0.30:    # plain
        n = r.randint(1, min(budget, r.choice([3, 10, 40, budget])))
        chars = [r.choice(PLAIN) if r.random() > 0.03 else r.choice(UTF) for _ in range(n)]
        s = "".join(chars).strip(" \t")
        if not s or s[0] in "\"'":
            s = "v" + s
        if r.random() < 0.15:
            s = s[:len(s) // 2] + "=" + s[len(s) // 2:]
        return s, s, "str", None
    if k < 0.50:    # quoted
        q = r.choice("\"'")
        n = r.randint(1, min(budget, r.choice([3, 10, 40, budget])))
        chars = [r.choice(QUOTED) if r.random() > 0.03 else r.choice(UTF) for _ in range(n)]
        s = "".join(chars).replace(q, "#" if r.random() < 0.5 else ";").strip(" \t")
        if not s:
            s = "# ; ="
        return q + s + q, s, "str", None
    if k < 0.55:
        q = r.choice("\"'")
        return q + q, "", "str", None
    if k < 0.67:
        v = r.choice([0, 1, -1, 2147483647, -2147483648, r.randint(-2**31, 2**31 - 1), r.randint(-1000, 1000)])
        s = str(v)
        if v > 0 and r.random() < 0.1:
            s = "+" + s
        if r.random() < 0.15:      # decimal text with leading zeros ("0644", "-08") is still a decimal integer
            v = r.choice([7, 8, 9, 10, 64, 644, 755, 2134, r.randint(0, 99999)]) * r.choice([1, 1, -1])
            s = ("-" if v < 0 else "") + "0" * r.randint(1, 3) + str(abs(v))
        elif r.random() < 0.04:    # what looks like a C hex literal converts like atoi does: the leading decimal digits
            s, v = r.choice(["0x1F", "0X10", "0x"]), 0
        return s, s, "int", v
    if k < 0.80:
        mant = str(r.randint(0, 10 ** r.randint(1, 12)))
        if r.random() < 0.7:
            mant += "." + "".join(r.choice("0123456789") for _ in range(r.randint(1, 8)))
        if r.random() < 0.4:
            mant += r.choice("eE") + r.choice(["", "+", "-"]) + str(r.randint(0, 40))
        if r.random() < 0.3:
            mant = "-" + mant
        return mant, mant, "double", float(mant)
    if k < 0.90:
        s = r.choice(["true", "false", "TRUE", "FALSE", "0", "1"])
        return s, s, "bool", s in ("true", "TRUE", "1")
    toks = [name(r, 1, 8) for _ in range(r.randint(1, 6))]
    s = "{" + blanks(r, 0, 2) + "".join(t + blanks(r, 1, 3) for t in toks[:-1]) + toks[-1] + blanks(r, 0, 2) + "}"
    return s, s, "list", toks


def gen_file(r):
    lines = []
    exp = {}

    def junk():
        k = r.random()
        if k < 0.35:
            lines.append(blanks(r, 0, 4))
        elif k < 0.7:
            lines.append(blanks(r, 0, 2) + r.choice("#;") + comment_text(r))
        else:
            lines.append(blanks(r, 0, 2) + r.choice("#;") + " " + name(r) + " = " + name(r))   # comment line containing '='

    for _ in range(r.randint(0, 3)):
        if r.random() < 0.3:
            lines.append(name(r) + " = " + name(r))      # assignment before the first section: contributes nothing
        else:
            junk()
    used = set()
    for _ in range(r.randint(0, 6)):
        sec = name(r, 1, r.choice([6, 12, 60]))
        if sec in used:
            continue
        used.add(sec)
        lines.append(blanks(r, 0, 2) + "[" + sec + "]" + blanks(r, 0, 2))
        keys = {}
        knames = [name(r) for _ in range(r.randint(0, 6))]
        assigns = [r.choice(knames) for _ in range(r.randint(len(knames), len(knames) + 2))] if knames else []
        for kn in assigns:
            while r.random() < 0.25:
                junk()
            pre = blanks(r, 0, 2) + kn + blanks(r, 0, 3) + "=" + blanks(r, 0, 3)
            longline = r.random() < 0.04
            budget = (1024 - len(pre.encode()) - 8) if longline else 60
            txt, s, typ, tv = gen_value(r, max(1, budget // 4))   # //4: a UTF char may take up to 3 bytes + quotes
            if longline and typ == "str" and txt[:1] not in "\"'":
                fill = 1024 - len((pre + txt).encode())
                pad = "x" * r.choice([fill, fill - 1, max(0, fill - 20)])
                txt += pad
                s += pad
            tail = ""
            if r.random() < 0.3 and len((pre + txt).encode()) < 900:
                tail = blanks(r, 0 if typ != "str" or txt[:1] in "\"'" else 0, 3) + r.choice("#;") + comment_text(r)
            lines.append(pre + txt + tail)
            keys[kn] = (s, typ, tv)
        while r.random() < 0.2:
            junk()
        if keys:
            exp[sec] = keys
    data = "\n".join(lines)
    if r.random() < 0.8:
        data += "\n"
    return r.choice(BOMS) + data.encode("utf-8"), exp


def compare(ctx, got, exp, path, raw):
    """got: parsed JSON dump of the agent; exp: model.  Returns list of (key, what)."""
    out = []
    if got.get("bad"):
        out.append(("robustness symptom=%s" % got["bad"], "inconsistent object on a grammar file"))
    gs = {}
    for s in got["sections"]:
        nm = bytes.fromhex(s["name"]).decode("utf-8", "replace")
        gs.setdefault(nm, {})
        for k in s["keys"]:
            gs[nm][bytes.fromhex(k["k"]).decode("utf-8", "replace")] = k
    for sec in exp:
        if sec not in gs:
            out.append(("grammar symptom=section-missing", "section [%s] with keys not reported" % sec))
    for sec in gs:
        if sec not in exp:
            out.append(("grammar symptom=section-unexpected", "section [%s] reported but has no keys / does not exist" % sec))
    for sec in exp:
        if sec not in gs:
            continue
        for kn, (s, typ, tv) in exp[sec].items():
            g = gs[sec].get(kn)
            if g is None:
                out.append(("grammar symptom=key-missing type=%s" % typ, "[%s] %s missing" % (sec, kn)))
                continue
            gv = bytes.fromhex(g["s"]).decode("utf-8", "replace") if g["s"] is not None else None
            if gv != s:
                cls = "quoted" if False else typ
                out.append(("grammar symptom=value-mismatch type=%s" % cls, "[%s] %s = %r expected %r" % (sec, kn, gv, s)))
                continue
            if typ == "int" and g["i"] != tv:
                out.append(("grammar symptom=int-getter", "[%s] %s int %r expected %r" % (sec, kn, g["i"], tv)))
            if typ == "double":
                d = float(g["d"])
                if not (d == tv or abs(d - tv) <= 1e-12 * max(abs(tv), 1e-300)):
                    out.append(("grammar symptom=double-getter", "[%s] %s double %r expected %r (text %s)" % (sec, kn, d, tv, s)))
            if typ == "bool" and bool(g["b"]) != tv:
                out.append(("grammar symptom=boolean-getter", "[%s] %s boolean %r expected %r" % (sec, kn, g["b"], tv)))
            if typ == "list":
                gl = None if g["l"] is None else [bytes.fromhex(x).decode() for x in g["l"]]
                if gl != tv:
                    out.append(("grammar symptom=list-getter", "[%s] %s list %r expected %r" % (sec, kn, gl, tv)))
        for kn in gs[sec]:
            if kn not in exp[sec]:
                first = kn.strip()[:1]
                out.append(("grammar symptom=key-unexpected%s" % ("-from-comment-line" if first in "#;" else ""), "[%s] unexpected key %r" % (sec, kn)))
    return out


SPECIALS = [b"", b"\n", b"[", b"]", b"[]", b"[]\n=\n", b"=", b"==\n", b"\"", b"'", b"[a]\nk=\"", b"[a]\nk='\n", b"[a]\n=v\n", b"[a]\nk=\n", b"[a]\nk={\n", b"[a]\nk={}\n", b"[a]\nk={ }\n",
            b"\xef\xbb\xbf", b"\xff\xfe", b"\xfe\xff\n[a]\nk=v", b"\x00\x00\xfe\xff[a]\nk=v\n", b"\xff\xfe\x00\x00[a]\nk=v\n", b"[a]\r\nk=v\r\n", b"[a]\rk=v\r", b"\x00", b"[a]\n\x00k=v\n", b"[a]\nk=v\x00w\n",
            b"[" * 5000, b"]" * 5000, b"=" * 5000, b"\"" * 3000, b"[a]\n" + b"k" * 1023 + b"=v\n", b"[a]\n" + b"k" * 1024 + b"=v\n", b"[a]\nk=" + b"v" * 1021 + b"\n", b"[a]\nk=" + b"v" * 1022 + b"\n",
            b"[a]\nk=" + b"v" * 1023 + b"\n", b"[a]\nk=" + b"v" * 4096 + b"\n", b"[" + b"s" * 1022 + b"]\nk=v\n", b"[" + b"s" * 1023 + b"]\nk=v\n", b"[" + b"s" * 2000 + b"]\nk=v\n",
            b"[a]\nk=\"" + b"q" * 1019 + b"\"\n", b"[a]\nk={" + b"a " * 600 + b"}\n", b"[a]\nk={" + b"a" * 1021 + b"}\n", b"[a]\n" + b" " * 1024 + b"k=v\n", b"[a]\nk = 1e400\nj = -1e-400\ni = 99999999999999999999\n",
            b"[a]\nk = " + b"9" * 1000 + b"." + b"9" * 20 + b"\n", b"[a]\nk = 1e" + b"9" * 500 + b"\n", b"[a]\nk = 0x10\nl = nan\nm = inf\n"]


def run(ctx):
    q = ctx.quick
    r = ctx.rng
    asan = build.driver("asan", "ini_agent", ["ini_agent.c"])
    tmpd = tempfile.mkdtemp(prefix="vfC16-", dir="/dev/shm" if os.path.isdir("/dev/shm") else None)
    try:
        _run(ctx, q, r, asan, tmpd)
    finally:
        shutil.rmtree(tmpd, ignore_errors=True)


def _run(ctx, q, r, asan, tmpd):
    ngram = 12000 if q else 100000
    files = []
    for i in range(ngram):
        data, exp = gen_file(r)
        p = os.path.join(tmpd, "g%06d.ini" % i)
        with open(p, "wb") as f:
            f.write(data)
        files.append((p, data, exp))
    # ---- grammar conformance ----
    nparts = 8 if q else 16
    st = {"grammar_files": ngram, "sections_expected": 0, "keys_expected": 0, "by_type": {}, "bom_files": 0, "long_lines": 0}

    def dump(part):
        sub = files[part::nparts]
        res = core.run([asan, "dump"], 900, env=core.env_for("asan"), stdin="".join(p + "\n" for p, _, _ in sub))
        return sub, res

    with cf.ThreadPoolExecutor(max_workers=nparts) as ex:
        for sub, res in ex.map(dump, range(nparts)):
            if res.timed_out:
                ctx.violation("robustness symptom=hang class=grammar", "parser did not terminate on generated files", None)
                continue
            if res.rc != 0:
                san = res.san_report()
                ctx.violation("robustness sanitizer %s" % ((san[0] + " " + "<".join(san[1])) if san else "rc=%d" % res.rc), "crash/sanitizer report while parsing grammar files", {"stderr": res.err[-4000:]})
                continue
            outs = [l for l in res.out.split("\n") if l.startswith("{")]
            if len(outs) != len(sub):
                raise core.Inconclusive("agent produced %d dumps for %d files" % (len(outs), len(sub)))
            for (p, data, exp), line in zip(sub, outs):
                got = json.loads(line)
                for key, what in compare(ctx, got, exp, p, data):
                    ctx.violation(key, what + " :: file " + repr(data[:600]), {"file_bytes_hex": data.hex()})
    for p, data, exp in files:
        st["sections_expected"] += len(exp)
        if data[:2] in (b"\xef\xbb", b"\xfe\xff", b"\xff\xfe", b"\x00\x00"):
            st["bom_files"] += 1
        if any(len(l) >= 1000 for l in data.split(b"\n")):
            st["long_lines"] += 1
        for sec in exp.values():
            st["keys_expected"] += len(sec)
            for (_, typ, _) in sec.values():
                st["by_type"][typ] = st["by_type"].get(typ, 0) + 1
    for (p, data, exp) in files[:3]:
        ctx.sample({"grammar_file": data.decode("utf-8", "replace")[:400], "expected": {s: {k: v[0] for k, v in d.items()} for s, d in exp.items()}})
    # ---- robustness: specials + mutation agent ----
    sp = []
    for i, b in enumerate(SPECIALS):
        p = os.path.join(tmpd, "s%03d.ini" % i)
        with open(p, "wb") as f:
            f.write(b)
        sp.append(p)
    res = core.run([asan, "dump"], 300, env=core.env_for("asan"), stdin="".join(p + "\n" for p in sp))
    if res.timed_out:
        ctx.violation("robustness symptom=hang class=special", "parser did not terminate on special inputs", None)
    elif res.rc != 0:
        san = res.san_report()
        ctx.violation("robustness sanitizer %s" % ((san[0] + " " + "<".join(san[1])) if san else "rc=%d" % res.rc), "crash/sanitizer report on special inputs", {"stderr": res.err[-4000:]})
    else:
        for p, line in zip(sp, [l for l in res.out.split("\n") if l.startswith("{")]):
            got = json.loads(line)
            if got.get("bad"):
                ctx.violation("robustness symptom=%s" % got["bad"], "inconsistent object for special input %r" % open(p, "rb").read()[:80], None)
    nmut_jobs = 12 if q else 16
    per = 25000 if q else 150000
    corpus = "".join(p + "\n" for p, _, _ in files[:600]) + "".join(p + "\n" for p in sp)
    jobs = [dict(cmd=[asan, "mutate", "--seed", str(ctx.seed * 977 + j), "--n", str(per), "--scratch", os.path.join(tmpd, "scratch%d" % j)],
                 variant="asan", tag="mutate %d" % j, stdin=corpus, san_ctx="ini-mutate", hang_is_violation=True, hang_key="robustness symptom=hang class=mutated") for j in range(nmut_jobs)]
    for j in jobs:
        j.setdefault("hang_is_violation", True)
        j.setdefault("hang_key", "robustness symptom=hang class=grammar")
    mres = core.run_jobs(ctx, jobs, timeout=300 if q else 3600)
    mt = {}
    for job, rr in mres:
        for o in rr.json_lines():
            if o.get("ev") == "stats":
                for k, v in o.items():
                    if isinstance(v, int):
                        mt[k] = mt.get(k, 0) + v
    st["mutated"] = mt
    st["special_inputs"] = len(SPECIALS)
    # ---- libFuzzer (thorough) ----
    if not q:
        fz = build.driver("clangfuzz", "ini_fuzz", ["ini_fuzz.c"])
        cdir = os.path.join(tmpd, "corpus")
        os.makedirs(cdir)
        for (p, data, _) in files[:400]:
            shutil.copy(p, cdir)
        fjobs = []
        for j in range(8):
            wd = os.path.join(tmpd, "fz%d" % j)
            os.makedirs(wd)
            fjobs.append(dict(cmd=[fz, "-runs=600000", "-max_len=4096", "-seed=%d" % (ctx.seed * 31 + j), "-artifact_prefix=" + wd + "/", "-print_final_stats=1", cdir + "/../fz%d" % j, cdir],
                              variant="asan", tag="libfuzzer %d" % j, san_ctx="ini-fuzz", timeout=3000, hang_is_violation=True, hang_key="robustness symptom=hang class=fuzz"))
        fres = core.run_jobs(ctx, fjobs, timeout=3000, workers=8)
        execs = 0
        import re
        for job, rr in fres:
            m = re.search(r"stat::number_of_executed_units:\s*(\d+)", rr.err)
            if m:
                execs += int(m.group(1))
            if "VF-INCONSISTENT" in rr.err:
                ctx.violation("robustness symptom=inconsistent class=fuzz", "libFuzzer input gives inconsistent object: " + rr.err[-500:], None)
        st["libfuzzer_execs"] = execs
    cov = ctx.coverage
    cov["evaluations"] = ngram + len(SPECIALS) + mt.get("inputs", 0) + st.get("libfuzzer_execs", 0)
    cov["distinct_nontrivial"] = sum(1 for (_, _, e) in files if e) + mt.get("inputs_with_sections", 0)
    cov["rule"] = ("evaluations = parsed inputs (grammar files + special inputs + mutated/random inputs [+ libFuzzer executions]). distinct_nontrivial = generated grammar files "
                   "with at least one non-empty section (each is a distinct random derivation) + mutated inputs on which the parser still produced at least one section (counted by the agent). "
                   "Grammar generator stays inside pinifile.h: [section], key = value with arbitrary blanks, plain/\"..\"/'..' values, comment markers inside quotes, '=' in values, trailing #/; comments, "
                   "comment lines with and without '=', blank lines, assignments before the first section, repeated keys, empty sections, 5 BOM kinds, lines up to 1024 bytes, int/double/boolean/{list} values.")
    cov["stats"] = st
    ctx.assumptions += ["double getter compared with 1e-12 relative tolerance (p_strtod is not correctly rounded and the statement does not require it)",
                        "generator avoids what the documentation leaves undefined: blanks just inside quotes, text after a closing quote other than a comment, duplicate section names, bare `key =`, non-ASCII at line start"]
    if st["keys_expected"] < 500 or mt.get("inputs", 0) < 1000:
        raise core.Inconclusive("too little observed")

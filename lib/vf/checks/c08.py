from .. import build, core

LEVEL = "exploration"


def run(ctx):
    q = ctx.quick
    asan = build.driver("asan", "c08_buf", ["c08_buf.c"])
    tsan = build.driver("tsan", "c08_buf", ["c08_buf.c"])
    plain = build.driver("plain", "c08_buf", ["c08_buf.c"])
    sd = ctx.seed
    jobs = []
    for i in range(6 if q else 32):
        jobs.append(dict(cmd=[asan, "--mode", "seq", "--ops", str(60000 if q else 2000000), "--seed", str(sd * 100 + i)], variant="asan", tag="seq %d" % i, san_ctx="shmbuffer-seq"))
    jobs.append(dict(cmd=[asan, "--mode", "smaller", "--ops", "20000", "--seed", str(sd)], variant="asan", tag="smaller-size handle", san_ctx="shmbuffer-smaller"))
    shapes = [(4, 2), (1, 1), (2, 4), (8, 8)] if q else [(4, 2), (1, 1), (2, 4), (8, 8), (16, 8), (3, 16), (32, 4)]
    for j, (P, C) in enumerate(shapes):
        N = (20000 if q else 600000) // max(1, P // 2)
        for (variant, exe) in (("asan", asan), ("plain", plain)):
            for mode in ("threads", "procs"):
                jobs.append(dict(cmd=[exe, "--mode", mode, "--P", str(P), "--C", str(C), "--N", str(N), "--rounds", "3" if q else "6", "--seed", str(sd * 100 + j)],
                                 variant=variant, tag="%s %dx%d %s" % (mode, P, C, variant), san_ctx="shmbuffer-" + mode, hang_is_violation=True,
                                 hang_key="concurrent-%s symptom=hang" % mode))
        tl = "/tmp/vfC08-tsan-%d-%d" % (sd, j)
        jobs.append(dict(cmd=[tsan, "--mode", "threads", "--P", str(P), "--C", str(C), "--N", str(N // 4), "--rounds", "2", "--seed", str(sd * 100 + j)],
                         variant="tsan", tag="threads %dx%d tsan" % (P, C), tsan_log=tl, san_ctx="shmbuffer-tsan", hang_is_violation=True, hang_key="concurrent-threads symptom=hang"))
    res = core.run_jobs(ctx, jobs, timeout=300 if q else 3000, workers=8)
    tot = {}
    conc = []
    ntsan = 0
    import glob, os
    for job, r in res:
        for o in r.json_lines():
            if o.get("ev") == "stats":
                for k, v in o.items():
                    if isinstance(v, int) and k != "viol":
                        tot[k] = tot.get(k, 0) + v
                if "len_classes" in o:
                    lc = tot.setdefault("len_classes", [0] * 10)
                    for i, v in enumerate(o["len_classes"]):
                        lc[i] += v
            elif o.get("ev") == "conc":
                conc.append(o)
        if job.get("tsan_log"):
            for rep in core.tsan_reports(job["tsan_log"]):
                ntsan += rep["count"]
                if rep["lib_frames"]:
                    ctx.violation("concurrent-threads tsan %s frames=%s" % (rep["kind"], "<".join(rep["lib_frames"][:3])), "ThreadSanitizer report with plibsys frames", {"report": rep["text"]})
                else:
                    ctx.notes.append("tsan report without library frames (harness): " + rep["text"][:300])
            for fn in glob.glob(job["tsan_log"] + ".*"):
                os.unlink(fn)
    cov = ctx.coverage
    recs = sum(c["consumed"] for c in conc)
    cov["evaluations"] = tot.get("ops", 0) + recs
    cov["distinct_nontrivial"] = tot.get("wrap_writes", 0) + tot.get("wrap_reads", 0) + len(conc)
    cov["rule"] = ("evaluations = sequential operations compared with the reference FIFO after every call + records exchanged by concurrent producers/consumers. "
                   "distinct_nontrivial = operations whose data wrapped around the end of the ring (each at a different position/length draw) + concurrent exchange runs. "
                   "Lengths per op from the classes {0,1,pivot-1,pivot,pivot+1,S,S+1,random,small,~S/2} with pivot = free (write) or used (read); capacities 1..9000 incl. page-boundary sizes; "
                   "handles opened with equal, larger and zero size arguments used interchangeably; smaller size argument in its own scenario.")
    cov["sequential"] = tot
    cov["concurrent_runs"] = conc[:40]
    cov["records_exchanged"] = recs
    cov["tsan_reports_total"] = ntsan
    ctx.sample({"seq": "S=64: write(free+1)->0, write(free)->free, read(used-1), clear, ... compared with reference ring after each call; segment header/tail inspected via a second mapping"})
    ctx.sample({"concurrent": conc[0] if conc else None})
    if tot.get("wrap_writes", 0) < 50 or tot.get("writes_refused", 0) < 50 or recs < 1000:
        raise core.Inconclusive("too little observed: %s" % tot)
    ctx.assumptions += ["write/read of length 0 may return 0 or -1 (the library rejects it as invalid argument; the statement's FIFO reading gives 0) as long as nothing changes",
                        "writes outside the segment are looked for in the zero tail of the segment's last page through an independent mapping and by ASan on user buffers; wild writes elsewhere are not observable",
                        "concurrent atomicity is judged on fixed-size records: any non-empty read must return one whole intact record"]

import glob, os

from .. import build, core

LEVEL = "exploration"
W = ["pthread_mutex_lock", "pthread_mutex_trylock", "pthread_mutex_unlock", "pthread_cond_wait", "pthread_cond_signal", "pthread_cond_broadcast"]


def run(ctx):
    q = ctx.quick
    sd = ctx.seed
    jobs = []
    # controlled scheduler over the general model
    for variant in ("plain-simgen", "asan-simgen"):
        exe = build.driver(variant, "c02_rwlock", ["c02_rwlock.c"], wraps=W, defines=['VH_MODEL="general"'])
        for i in range((6 if q else 16) if variant == "plain-simgen" else (2 if q else 6)):
            jobs.append(dict(cmd=[exe, "--mode", "sched", "--n", str((20000 if q else 250000) // (1 if variant == "plain-simgen" else 4)), "--seed", str(sd * 100 + i)], variant=variant, tag="sched %s %d" % (variant, i),
                             san_ctx="rwlock-general", model="general"))
    # OS-scheduled stress, both models
    for variant, model in (("asan", "posix"), ("tsan", "posix"), ("asan-simgen", "general"), ("tsan-simgen", "general"), ("plain-simgen", "general")):
        hb = variant.startswith("tsan")
        exe = build.driver(variant, "c02_rwlock", ["c02_rwlock.c"], wraps=W, defines=['VH_MODEL="%s"' % model] + (["HB_MODE"] if hb else []))
        for j, threads in enumerate(["4,16", "48"] if q else ["2,4", "8,16", "32", "48", "64"]):
            for rep in range(1 if q else 5):
                n = (60000 if q else 1000000) // (8 if hb else 1)
                job = dict(cmd=[exe, "--mode", "stress", "--threads", threads, "--n", str(n), "--perturb", str(10 if rep % 2 == 0 else 40), "--seed", str(sd * 100 + j * 10 + rep)], variant=variant,
                           tag="stress %s T=%s rep%d" % (variant, threads, rep), san_ctx="rwlock-" + model, model=model)
                if hb:
                    job["tsan_log"] = "/tmp/vfC02-%s-%d-%d-%d" % (variant, sd, j, rep)
                jobs.append(job)
    # read holds up to the implementation's limit (2^28-1 on glibc's native lock, 32767 in the general model), uninstrumented builds
    for variant, model in (("plain", "posix"), ("plain-simgen", "general")):
        exe = build.driver(variant, "c02_rwlock", ["c02_rwlock.c"], wraps=W, defines=['VH_MODEL="%s"' % model])
        jobs.append(dict(cmd=[exe, "--mode", "holds", "--n", str((1 << 28) + 64)], variant=variant, tag="holds %s" % variant, san_ctx="rwlock-" + model, model=model))
    res = core.run_jobs(ctx, jobs, timeout=900 if q else 3600, workers=6)
    per = {}
    ntsan = 0
    for job, r in res:
        for o in r.json_lines():
            if o.get("ev") == "stats":
                p = per.setdefault(o["model"] + ":" + o["mode"], {})
                for k, v in o.items():
                    if isinstance(v, int) and k != "viol":
                        p[k] = max(p.get(k, 0), v) if k in ("max_readers", "stress_max_readers", "distinct_states", "trylock_read_holds_granted", "trylock_read_holds_refused_at", "max_simultaneous_read_holds") else p.get(k, 0) + v
            elif o.get("ev") == "sample":
                ctx.sample(o)
        if job.get("tsan_log"):
            for rep in core.tsan_reports(job["tsan_log"]):
                ntsan += rep["count"]
                fr = "<".join(rep["lib_frames"][:3]) if rep["lib_frames"] else "protected-data"
                ctx.violation("model=%s tsan %s frames=%s" % (job["model"], rep["kind"], fr), "ThreadSanitizer: reader/writer sections overlap or lock state races (%s)" % job["tag"], {"report": rep["text"]})
            for fn in glob.glob(job["tsan_log"] + ".*"):
                os.unlink(fn)
    sch = per.get("general:sched", {})
    cov = ctx.coverage
    cov["evaluations"] = sch.get("histories", 0) + sum(p.get("stress_grants", 0) + p.get("stress_try_true", 0) + p.get("stress_try_false", 0) for p in per.values())
    cov["distinct_nontrivial"] = sch.get("distinct_traces", 0)
    cov["rule"] = ("evaluations = controlled-scheduler histories (2-4 workers x 1-4 rounds of rlock/wlock/tryr/tryw+unlock, or the readers-share hand-off scenario) + grants/try results in OS-scheduled stress runs. "
                   "distinct_nontrivial = distinct (scripts, schedule trace) pairs executed by the controlled scheduler (hash set per process, summed over processes with different seeds). Every scheduling decision is a seeded PRNG "
                   "choice among enabled workers at one of the six wrapped pthread calls or inside a critical section; half of the histories inject spurious condition wake-ups (5% per decision); "
                   "deadlock/lost wake-up = no enabled worker while a script is unfinished (exact, no clock).")
    cov["per_model_mode"] = per
    cov["tsan_reports"] = ntsan
    if sch.get("histories", 0) < 1000 or sch.get("cond_waits", 0) < 100 or sch.get("max_readers", 0) < 2:
        raise core.Inconclusive("controlled scheduler observed too little: %s" % sch)
    for key in ("posix:stress", "general:stress"):
        p = per.get(key, {})
        if p.get("stress_grants", 0) < 1000 or p.get("stress_max_readers", 0) < 2:
            raise core.Inconclusive("%s observed too little: %s" % (key, p))
    ctx.assumptions += ["the controlled scheduler serialises workers at the pthread calls plibsys makes: interleavings inside the library between two such calls are not explored (the general model keeps all state under its mutex)",
                        "a waiting writer may hold back new readers (writer preference): the readers-share scenario uses readers only",
                        "unbounded liveness is restated as completion of finite rounds; stress runs use a 45 s no-progress watchdog"]

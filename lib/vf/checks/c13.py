from . import trees

LEVEL = "exploration"


def run(ctx):
    trees.run(ctx, 13)

from .. import build, core

LEVEL = "exploration"


def run(ctx):
    q = ctx.quick
    jobs = []
    for variant in ("asan", "plain", "tsan"):
        exe = build.driver(variant, "c09_sockdata", ["c09_sockdata.c", "wrap_sys.c"], wraps=build.WRAPS_ALL)
        n = (4 if q else 16) if variant != "tsan" else (1 if q else 4)
        for i in range(n):
            cmd = [exe, "--tcp", str(8 if q else 24), "--udp", str(4 if q else 12), "--dgrams", str(200 if q else 1000), "--bulk", str((1 << 20) if q else (8 << 20)), "--seed", str(ctx.seed * 100 + i)]
            if i:
                cmd.append("--no-peer-gone")
            job = dict(cmd=cmd, variant=variant, tag="%s seed%d" % (variant, i), san_ctx="socket-data", hang_is_violation=True, hang_key="symptom=hang")
            if variant == "tsan":
                job["tsan_log"] = "/tmp/vfC09-%d-%d" % (ctx.seed, i)
            jobs.append(job)
    res = core.run_jobs(ctx, jobs, timeout=600 if q else 3600, workers=8)
    tot = {}
    inj = {}
    import glob, os
    for job, r in res:
        for o in r.json_lines():
            if o.get("ev") == "stats":
                for k, v in o.items():
                    if isinstance(v, int) and k != "viol":
                        tot[k] = tot.get(k, 0) + v
                for k, v in o["injected"].items():
                    a = inj.setdefault(k, [0, 0, 0, 0])
                    for i in range(4):
                        a[i] += v[i]
        if job.get("tsan_log"):
            for rep in core.tsan_reports(job["tsan_log"]):
                if rep["lib_frames"]:
                    ctx.violation("tsan %s frames=%s" % (rep["kind"], "<".join(rep["lib_frames"][:3])), "ThreadSanitizer report with plibsys frames in the two-thread stream session", {"report": rep["text"]})
            for fn in glob.glob(job["tsan_log"] + ".*"):
                os.unlink(fn)
    cov = ctx.coverage
    cov["evaluations"] = tot.get("tcp_sessions", 0) + tot.get("udp_datagrams", 0) + tot.get("peer_gone_cases", 0) + tot.get("refused_connects", 0)
    cov["distinct_nontrivial"] = tot.get("tcp_sessions", 0) + tot.get("udp_sessions", 0)
    cov["rule"] = ("evaluations = TCP sessions + UDP datagrams + peer-gone cases + refused blocking connects (must fail with the refusal, never TRUE, never would-block/in-progress/EINTR). distinct_nontrivial = sessions, each a distinct PRNG draw of (family, blocking/non-blocking, total size, chunk size classes 7 B..1 MiB, "
                   "4 KiB socket buffers, slow receiver, start order, injection density 0-50% or every k-th call, injected kinds). The receiver compares the stream with the keyed generator on the fly by the byte counts the API "
                   "reported; datagrams must be exactly the sent datagram cut to the buffer, with the sender's address; injections by libc call and kind [EINTR, EAGAIN, short, spurious-ready] are in coverage.injected.")
    cov["totals"] = tot
    cov["injected"] = inj
    ctx.sample({"tcp_session": "IPv6, blocking, 1.3 MiB, chunks <= 64 KiB, receiver buffers <= 7 B, 30% of send/recv/poll calls return EINTR|EAGAIN|short|spurious-ready"})
    ctx.sample({"udp": "datagram 65507 B into a 1200 B buffer -> receive_from returns 1200, prefix equal, sender address equal to the sender socket's local address"})
    need = {"send": (0, 1, 2), "recv": (0, 1, 2), "poll": (0, 3), "sendto": (0, 1), "recvfrom": (0, 1)}
    missing = [(k, i) for k, idx in need.items() for i in idx if not inj.get(k, [0, 0, 0, 0])[i]]
    if missing and not ctx.violations:
        raise core.Inconclusive("injection kinds never fired: %s" % missing)
    if tot.get("tcp_bytes", 0) < (1 << 20):
        raise core.Inconclusive("too little data moved")
    ctx.assumptions += ["EAGAIN is injected only because plibsys keeps every descriptor non-blocking; short transfers only on stream sockets; injected calls are not performed (EINTR/EAGAIN) or performed with a reduced length (short)",
                        "UDP loss (a timed-out receive) is allowed; real network loss/reordering is out of reach (loopback only)",
                        "the SIGPIPE disposition belongs to the library (p_libsys_init); one extra case resets it to default and requires p_socket_send alone (MSG_NOSIGNAL) to stay signal-free"]

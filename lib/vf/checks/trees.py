"""Shared workload planner for C12 / C13 / C14 (driver harness/tree_drv.c)."""
from .. import build, core

TN = ["bst", "rb", "avl"]


def plan(ctx, prop):
    q = ctx.quick
    bit = {12: 1, 13: 2, 14: 4}[prop]
    asan = build.driver("asan", "tree_drv", ["tree_drv.c"])
    plain = build.driver("plain", "tree_drv", ["tree_drv.c"])
    if prop == 12:
        cfgs = [0, 2, 6, 3, 34, 39]      # 34 / 39: comparator results with magnitudes other than 1 (34 with data; 39 with notifiers, data, descending)
        types = [0, 1, 2]
    elif prop == 13:
        cfgs = [2, 6]
        types = [1, 2]
    else:
        cfgs = [3, 1, 7, 2, 9, 17, 27]      # 9: value notifier only, 17: key notifier only, 27: value-only with comparator data
        types = [0, 1, 2]
    jobs = []
    sd = ctx.seed

    def add(variant, exe, args, tag):
        jobs.append(dict(cmd=[exe] + [str(a) for a in args] + ["--props", str(bit)], variant=variant, tag=tag, san_ctx="tree"))

    for t in types:
        for ci, cfg in enumerate(cfgs):
            # (i) exhaustive op sequences
            if q:
                if ci < 2:
                    add("asan", asan, ["--mode", "exhaust", "--U", 4, "--L", 6, "--type", t, "--cfg", cfg, "--seed", sd], "exhaust U4 L6 %s cfg%d" % (TN[t], cfg))
                else:
                    add("asan", asan, ["--mode", "exhaust", "--U", 3, "--L", 7, "--type", t, "--cfg", cfg, "--seed", sd], "exhaust U3 L7 %s cfg%d" % (TN[t], cfg))
            else:
                if ci < 2:
                    for first in range(10):
                        add("plain", plain, ["--mode", "exhaust", "--U", 5, "--L", 7, "--first", first, "--type", t, "--cfg", cfg, "--seed", sd], "exhaust U5 L7 first%d %s cfg%d" % (first, TN[t], cfg))
                    for first in range(8):
                        add("asan", asan, ["--mode", "exhaust", "--U", 4, "--L", 8, "--first", first, "--type", t, "--cfg", cfg, "--seed", sd], "exhaust U4 L8 first%d %s cfg%d" % (first, TN[t], cfg))
                else:
                    add("asan", asan, ["--mode", "exhaust", "--U", 4, "--L", 7, "--type", t, "--cfg", cfg, "--seed", sd], "exhaust U4 L7 %s cfg%d" % (TN[t], cfg))
            # (ii) permutations + removals
            if q:
                if ci < 2:
                    add("asan", asan, ["--mode", "perm", "--n", 7, "--type", t, "--cfg", cfg, "--seed", sd], "perm n7 %s cfg%d" % (TN[t], cfg))
                if ci == 0:
                    for first in range(8):
                        add("plain", plain, ["--mode", "perm", "--n", 8, "--first", first, "--type", t, "--cfg", cfg, "--seed", sd], "perm n8 first%d %s cfg%d" % (first, TN[t], cfg))
            else:
                if ci < 2:
                    for first in range(8):
                        add("asan", asan, ["--mode", "perm", "--n", 8, "--first", first, "--type", t, "--cfg", cfg, "--seed", sd], "perm n8 first%d %s cfg%d" % (first, TN[t], cfg))
                    if ci == 0:
                        for first in range(9):
                            add("plain", plain, ["--mode", "perm", "--n", 9, "--first", first, "--type", t, "--cfg", cfg, "--seed", sd], "perm n9 first%d %s cfg%d" % (first, TN[t], cfg))
                else:
                    add("asan", asan, ["--mode", "perm", "--n", 7, "--type", t, "--cfg", cfg, "--seed", sd], "perm n7 %s cfg%d" % (TN[t], cfg))
            # (iii) random adversarial runs
            sizes = [(24, 150000), (300, 150000), (4000, 60000)] if q else [(16, 600000), (200, 600000), (3000, 600000), (40000, 400000), (100000, 300000)]
            for (maxn, ops) in sizes:
                if t == 0 and maxn > 300:
                    continue
                if t == 0:
                    ops //= 3
                for rep in range(1 if q else 3):
                    add("asan", asan, ["--mode", "random", "--maxn", maxn, "--ops", ops, "--type", t, "--cfg", cfg, "--seed", sd * 100 + rep],
                        "random maxn%d ops%d %s cfg%d seed%d" % (maxn, ops, TN[t], cfg, sd * 100 + rep))
    if prop in (12, 14):
        # keys and values that are plain integers in the pointer, i.e. the NULL pointer is one of the keys and one of the values
        for t in types:
            for cfg in ([1, 9, 17] if prop == 14 else [1]):
                add("asan", asan, ["--mode", "intkeys", "--ops", 40000 if q else 2000000, "--type", t, "--cfg", cfg, "--seed", sd], "intkeys %s cfg%d" % (TN[t], cfg))
    return jobs


def run(ctx, prop):
    jobs = plan(ctx, prop)
    results = core.run_jobs(ctx, jobs, timeout=600 if ctx.quick else 3000)
    tot = {}
    shapes = {}
    rm = {}
    modes = {}
    for job, r in results:
        for o in r.json_lines():
            if o.get("ev") == "stats":
                for k in ("ops", "histories", "full_checks", "stop_traversals", "inserts", "replaces", "remove_hit", "remove_miss",
                          "clears", "lookups", "compares", "destroy_events", "avl_checked", "rb_checked", "intkey_ops", "intkey_notifier_calls", "intkey_notifier_calls_with_null", "intkey_replace_with_stored_value"):
                    tot[k] = tot.get(k, 0) + o.get(k, 0)
                tot["max_n"] = max(tot.get("max_n", 0), o["max_n"])
                key = (o["tree"],)
                shapes[key] = max(shapes.get(key, 0), o["distinct_shapes"])
                m = rm.setdefault(o["tree"], [[0] * 4 for _ in range(3)])
                for i in range(3):
                    for j in range(4):
                        m[i][j] += o["removals"][i][j]
                modes[o["mode"]] = modes.get(o["mode"], 0) + o["histories"]
            elif o.get("ev") == "sample":
                ctx.sample({"job": job["tag"], "last_history_ops": o["last_history_ops"][:300]})
    cov = ctx.coverage
    cov["evaluations"] = tot.get("ops", 0)
    cov["distinct_nontrivial"] = sum(shapes.values())
    cov["rule"] = ("evaluations = tree operations executed next to the reference map (each followed by the cheap oracles; full oracles "
                   "at the end of every exhaustive/permutation history and at random points of random runs). distinct_nontrivial = "
                   "distinct (tree type, shape incl. keys) reconstructed through p_tree_lookup comparator traces on which the full oracles ran; "
                   "counted per driver process in a hash set, and only the largest per-process count of each tree type is summed "
                   "(a lower bound on the union). Generation: every op sequence over a 3-5 key universe up to the stated length, every "
                   "insertion permutation followed by every single removal and a random removal order, and seeded random runs with "
                   "ascending/descending/zig-zag/remove-min/max/root/two-children phases; plus integer-in-pointer histories in which NULL is a stored key and a stored value (notifier calls compared as multisets).")
    cov["totals"] = tot
    cov["histories_by_mode"] = modes
    cov["removal_cases_children_x_depthbucket"] = rm
    cov["jobs"] = len(jobs)
    cov["exhaustive"] = False
    if tot.get("ops", 0) < 1000 or tot.get("full_checks", 0) < 100:
        raise core.Inconclusive("too few operations observed")
    for t, m in rm.items():
        if sum(m[2]) == 0 or sum(m[1]) == 0 or sum(m[0]) == 0:
            raise core.Inconclusive("removal class never exercised for %s: %s" % (t, m))
    ctx.assumptions += [
        "shape is reconstructed from the node keys the user comparator is shown during p_tree_lookup (root-to-key path); an implementation whose lookup did not walk the stored links would invalidate it",
        "for all inputs = exhaustively for the small universes listed in coverage.jobs, sampled beyond",
        "clean ASan/UBSan run is not a proof of memory safety",
    ]

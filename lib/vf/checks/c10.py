from .. import build, core

LEVEL = "exploration"


def run(ctx):
    q = ctx.quick
    jobs = []
    for variant in ("asan", "plain"):
        exe = build.driver(variant, "c10_sockstate", ["c10_sockstate.c", "wrap_sys.c"], wraps=build.WRAPS_ALL)
        for i in range(4 if q else 12):
            cmd = [exe, "--n", str(1500 if q else 40000), "--fixed", str(6 if q else 60), "--maxcalls", str(30 if i % 2 == 0 else 60), "--seed", str(ctx.seed * 100 + i)]
            if i or variant != "asan":
                cmd.append("--no-odd")          # the odd-state probes burn CPU for 5 s when they spin: once is enough
            jobs.append(dict(cmd=cmd, variant=variant, tag="%s seed%d" % (variant, i), san_ctx="socket-state", hang_is_violation=True, hang_key="symptom=hang-in-random-sequence"))
    res = core.run_jobs(ctx, jobs, timeout=300 if q else 3600, workers=8)
    tot = {}
    for job, r in res:
        for o in r.json_lines():
            if o.get("ev") == "stats":
                for k, v in o.items():
                    if isinstance(v, int) and k != "viol":
                        tot[k] = max(tot.get(k, 0), v) if k.startswith("distinct") else tot.get(k, 0) + v
    cov = ctx.coverage
    cov["evaluations"] = tot.get("calls", 0)
    cov["distinct_nontrivial"] = tot.get("distinct_transitions", 0)
    cov["rule"] = ("evaluations = API calls made in random sequences over worlds of 2-4 sockets (stream/datagram, IPv4/IPv6; 65% of the worlds start with a bound listener or datagram pair), each followed by a comparison of "
                   "all getters with the reference state machine. distinct_nontrivial = distinct (abstract model state, call) pairs exercised (largest per-process count; state = family, type, blocking, timeout>0, keepalive, bound, "
                   "listening, connected, closed, pending peers, bytes in flight, backlog changed). Sub-oracles: non-blocking => zero poll() calls; closed socket => not-available and zero libc calls with a descriptor, decoy descriptor intact; "
                   "close => exactly one close(); timed operations that cannot proceed => timed-out and elapsed >= T; untimed blocking accept/receive return only after the helper's flag; CLOEXEC on new and accepted descriptors.")
    cov["totals"] = tot
    ctx.sample({"sequence": "s0:bind s0:listen s1:set_blocking(0) s1:connect(s0) -> IN_PROGRESS, 0 polls; s0:accept -> s2; s1:send; s2:receive; s2:close; s2:send -> NOT_AVAILABLE, 0 fd calls; s2:close again -> no close()"})
    ctx.sample({"odd_state": "datagram socket, timeout 20 ms, shutdown(read), receive -> must return (it spins: known finding)"})
    if tot.get("timed_cases", 0) < 20 or tot.get("nonblocking_cases", 0) < 20 or tot.get("closed_socket_calls", 0) < 100 or tot.get("accepts", 0) < 20:
        if not ctx.violations:
            raise core.Inconclusive("classes not exercised: %s" % tot)
    ctx.assumptions += ["outcomes that depend on the kernel and that the statement does not fix (errno of a refused connect, data calls on half-closed or reset pairs, bind after other network calls) are executed but not judged",
                        "elapsed-time checks are lower bounds only (1 ms clock slop)"]

import glob, os

from .. import build, core

LEVEL = "exploration"

VARIANTS = [("plain", "c11"), ("asan", "c11"), ("tsan", "c11"), ("plain-sync", "sync"), ("asan-sync", "sync"), ("plain-simgen", "sim"), ("tsan-simgen", "sim"), ("asan-simgen", "sim")]


def run(ctx):
    q = ctx.quick
    jobs = []
    sd = ctx.seed
    for variant, model in VARIANTS:
        hb = variant.startswith("tsan")
        exe = build.driver(variant, "c04_atomic", ["c04_atomic.c"], defines=['VH_MODEL="%s"' % model] + (["HB_MODE"] if hb else []))
        skip = ["--skip-overflow"] if variant == "asan-simgen" else []
        slow = 8 if hb else (3 if variant.startswith("asan") else 1)
        jobs.append(dict(cmd=[exe, "--mode", "value", "--n", str((100000 if q else 10000000) // slow), "--seed", str(sd)] + skip, variant=variant, tag="value %s" % variant, san_ctx="atomic-" + model))
        if variant == "asan-simgen":
            continue
        for T in ([2, 8, 32] if q else [2, 4, 8, 16, 32, 64]):
            n = (100000 if q else 1000000) // slow // max(1, T // 8)
            job = dict(cmd=[exe, "--mode", "conc", "--T", str(T), "--n", str(n), "--seed", str(sd + T)], variant=variant, tag="conc T%d %s" % (T, variant), san_ctx="atomic-" + model,
                       hang_is_violation=True, hang_key="model=%s symptom=hang" % model)
            if hb:
                job["tsan_log"] = "/tmp/vfC04-%s-%d-%d" % (variant, sd, T)
            jobs.append(job)
        for rep in range(1 if q else 4):
            job = dict(cmd=[exe, "--mode", "litmus", "--n", str((1000000 if q else 50000000 // 4) // (20 if hb else 1)), "--seed", str(sd + rep)], variant=variant, tag="litmus %s" % variant, san_ctx="atomic-" + model,
                       hang_is_violation=True, hang_key="model=%s symptom=hang" % model)
            if hb:
                job["tsan_log"] = "/tmp/vfC04-%s-%d-l%d" % (variant, sd, rep)
            jobs.append(job)
    res = core.run_jobs(ctx, jobs, timeout=600 if q else 3600, workers=6)
    per = {}
    ntsan = 0
    for job, r in res:
        for o in r.json_lines():
            if o.get("ev") == "stats":
                p = per.setdefault(o["model"], {"value_cases": 0, "exhaustive_pairs": 0, "conc_ops": 0, "refcount_rounds": 0, "sb_pointer_rounds": 0, "sb_rounds": 0, "sb_outcomes": [0, 0, 0, 0], "mp_rounds": 0, "max_threads": 0})
                for k in ("value_cases", "exhaustive_pairs", "conc_ops", "refcount_rounds", "sb_pointer_rounds", "sb_rounds", "mp_rounds"):
                    p[k] += o[k]
                for i in range(4):
                    p["sb_outcomes"][i] += o["sb_outcomes"][i]
                if o["mode"] == "conc":
                    p["max_threads"] = max(p["max_threads"], o["threads"])
        if job.get("tsan_log"):
            model = "sim" if "simgen" in job["variant"] else "c11"
            for rep in core.tsan_reports(job["tsan_log"]):
                ntsan += rep["count"]
                if rep["lib_frames"]:
                    ctx.violation("model=%s tsan %s frames=%s" % (model, rep["kind"], "<".join(rep["lib_frames"][:3])), "ThreadSanitizer report involving p_atomic_* (%s)" % job["tag"], {"report": rep["text"]})
                else:
                    ctx.violation("model=%s tsan %s on-payload" % (model, rep["kind"]), "ThreadSanitizer: data published through p_atomic_int_set/get races (%s)" % job["tag"], {"report": rep["text"]})
            for fn in glob.glob(job["tsan_log"] + ".*"):
                os.unlink(fn)
    cov = ctx.coverage
    cov["evaluations"] = sum(p["value_cases"] + p["conc_ops"] + p["sb_rounds"] + p["sb_pointer_rounds"] + p["mp_rounds"] for p in per.values())
    cov["distinct_nontrivial"] = sum(p["value_cases"] for p in per.values())
    cov["rule"] = ("evaluations = single-threaded operand cases (each exercises all int and pointer operations) + concurrent operations + litmus rounds, summed over the three atomic models. "
                   "distinct_nontrivial = operand cases (boundary pairs are exhaustive: 17x17 int and 19x19 pointer-width values per operation; the rest are PRNG draws). "
                   "Concurrent tests: tickets (returned values must be a permutation), per-thread strides (old values must chain), racing dec_and_test to zero (exactly one TRUE), CAS counters, "
                   "bit ownership via and/or/xor, tagged pointer words (no torn value); store-buffering litmus through set/get ((0,0) forbidden), message passing with plain payload.")
    cov["per_model"] = per
    cov["tsan_reports"] = ntsan
    ctx.sample({"value_case": "int add(0x7fffffff, 1) returns 0x7fffffff, leaves 0x80000000; cas(word=a, expected=b) succeeds iff a==b"})
    ctx.sample({"litmus": "x=1;r1=y || y=1;r2=x via p_atomic_int_set/get; outcomes [00,01,10,11] per model in coverage.per_model.*.sb_outcomes"})
    for m in ("c11", "sync", "sim"):
        p = per.get(m)
        if not p or p["conc_ops"] < 1000 or p["sb_rounds"] < 1000:
            raise core.Inconclusive("model %s not exercised" % m)
        if p["sb_outcomes"][1] + p["sb_outcomes"][2] < p["sb_rounds"] // 50:
            ctx.notes.append("model %s: litmus threads overlapped rarely: %s" % (m, p["sb_outcomes"]))
    ctx.assumptions += ["TSan is not applied to the sync model (plain volatile accesses in patomic-sync.c are correct on x86-64 but not modelled by TSan)",
                        "UBSan is not applied to wrap-around operands of the sim model (signed overflow in `oldval + val`): C04 states values, and the values are right",
                        "barrier weakenings that x86-TSO cannot exhibit are only visible to TSan (c11, sim)"]

"""C07: shared memory — multi-process histories against a byte-image model, system-wide lock workload, concurrent
first opens, owner free / recovery, crash-point enumeration."""
import collections, os, random, time, concurrent.futures as cf

from .. import build, core, agents

LEVEL = "exploration"
NH = 5
SIZES = [64, 100, 4095, 4096, 4097, 8192, 12289, 65536, 1 << 20]


def fnv(b):
    h = 1469598103934665603
    for x in b:
        h = ((h ^ x) * 1099511628211) & 0xFFFFFFFFFFFFFFFF
    return h


def pattern(off, ln, seed):
    return bytes(((seed * 131 + (off + i) * 7) & 255) for i in range(ln))


def run_history(ctx, exe, rng, idx):
    st = collections.Counter()
    nag = rng.choice([2, 3])
    ags = [agents.Agent(exe, name="agent%d" % i) for i in range(nag)]
    if idx % 2:
        for ag in ags:
            ag.cmd("inject 30")        # half of the histories: 30% of sem_wait/sem_open/shm_open calls return EINTR first
    base = "vfC07-%d-%d-%d" % (os.getpid(), ctx.seed, idx)
    names, shape = agents.name_family(rng, base, rng.choice([1, 2]))
    ctx.coverage.setdefault("name_shapes", collections.Counter())[shape] += 1
    inst = {n: None for n in names}            # name -> dict(size, img, byarg)
    hs = {}                                    # (agent, hid) -> dict(name, rep, perm, owner, creator, inst)
    log = []

    def fail(key, what):
        ctx.violation(key, what + " ; history: " + " | ".join(log), {"history": list(log)})
        return False

    def verify_all(what):
        for (a, h), hd in hs.items():
            i = hd["inst"]
            n = min(hd["rep"], len(i["img"]))
            r = ags[a].cmd("shmsum %d 0 %d" % (h, n))
            if r != "ok %016x" % fnv(i["img"][:n]):
                return fail("history symptom=bytes-differ after=%s" % what.split()[0], "%s: agent%d h%d (size arg %d) does not read the bytes written through another handle" % (what, a, h, hd["arg"]))
            st["cross_reads"] += 1
        return True

    ok = True
    try:
        for step in range(rng.randint(6, 22)):
            free_slots = [(a, h) for a in range(nag) for h in range(NH) if (a, h) not in hs]
            live = list(hs.keys())
            r = rng.random()
            if (r < 0.35 or not live) and free_slots:
                a, h = rng.choice(free_slots)
                n = rng.choice(names)
                exists = inst[n] is not None
                if rng.random() < 0.08:
                    # no free descriptor in the calling process: p_shm_new must fail and leave the name (segment and lock semaphore) exactly as it was
                    what = "new agent%d h%d %s size=4096 with the descriptor table full" % (a, h, n[-1])
                    log.append(what)
                    before = (os.path.exists(agents.shm_path(n)), os.path.getsize(agents.shm_path(n)) if os.path.exists(agents.shm_path(n)) else -1, os.path.exists(agents.shm_lock_path(n)))
                    ags[a].cmd("nofd 1")
                    res = ags[a].cmd("shmnew %d %s 4096 w" % (h, n))
                    ags[a].cmd("nofd 0")
                    st["new_without_descriptors"] += 1
                    after = (os.path.exists(agents.shm_path(n)), os.path.getsize(agents.shm_path(n)) if os.path.exists(agents.shm_path(n)) else -1, os.path.exists(agents.shm_lock_path(n)))
                    if res.startswith("ok"):
                        ok = fail("history symptom=new-succeeded-without-descriptors", "p_shm_new returned a handle although shm_open failed with EMFILE")
                        break
                    if before != after:
                        ok = fail("history symptom=failed-new-changed-the-name", "a p_shm_new that failed for lack of descriptors changed the name: (segment exists, size, lock semaphore exists) %s -> %s" % (before, after))
                        break
                    if not verify_all(what):
                        ok = False
                        break
                    continue
                if not exists and rng.random() < 0.15:
                    # a creation that cannot succeed (nothing to map / larger than any file): must fail and leave no name behind,
                    # so that the next p_shm_new is a fresh creation of its own size
                    bad = rng.choice([0, 2 ** 63 - 1, 2 ** 62])
                    what = "new agent%d h%d %s size=%d (cannot succeed)" % (a, h, n[-1], bad)
                    log.append(what)
                    res = ags[a].cmd("shmnew %d %s %d w" % (h, n, bad))
                    st["impossible_creations"] += 1
                    if res.startswith("ok"):
                        ags[a].cmd("shmown %d" % h)
                        ags[a].cmd("shmfree %d" % h)
                    if os.path.exists(agents.shm_path(n)) or os.path.exists(agents.shm_lock_path(n)):
                        ok = fail("history symptom=failed-creation-leaves-name", "p_shm_new(size %d) on a fresh name %s but the name (segment or lock semaphore) is still present afterwards" % (bad, "returned a handle that was then freed by an owner" if res.startswith("ok") else "failed"))
                        break
                    continue
                arg = rng.choice(SIZES) if not exists else rng.choice([inst[n]["size"], inst[n]["size"], rng.choice(SIZES), 0])
                perm = "r" if (exists and rng.random() < 0.2) else "w"
                what = "new agent%d h%d %s size=%d %s" % (a, h, n[-1], arg, perm)
                log.append(what)
                res = ags[a].cmd("shmnew %d %s %d %s" % (h, n, arg, perm))
                if not res.startswith("ok"):
                    ok = fail("history symptom=new-failed name-exists=%s" % exists, "p_shm_new failed: %s" % res)
                    break
                rep = int(res.split()[1])
                if not exists:
                    if rep != arg:
                        ok = fail("history symptom=creator-size", "creator asked for %d bytes, p_shm_get_size reports %d" % (arg, rep))
                        break
                    fs = os.path.getsize(agents.shm_path(n)) if os.path.exists(agents.shm_path(n)) else -1
                    i = dict(size=arg, img=bytearray(arg), byarg={arg: rep})
                    inst[n] = i
                    if fs != arg:
                        ok = fail("history symptom=segment-file-size", "segment file has %d bytes for a request of %d" % (fs, arg))
                        break
                    hs[(a, h)] = dict(name=n, rep=rep, perm=perm, owner=False, creator=True, inst=i, arg=arg)
                    st["create"] += 1
                else:
                    i = inst[n]
                    if rep > i["size"] or rep == 0:
                        ok = fail("history symptom=reported-size-inaccessible", "handle opened with size %d on a %d byte segment reports %d" % (arg, i["size"], rep))
                        break
                    if arg in i["byarg"] and i["byarg"][arg] != rep:
                        ok = fail("history symptom=same-arg-different-size", "two handles created with size argument %d report %d and %d" % (arg, i["byarg"][arg], rep))
                        break
                    i["byarg"][arg] = rep
                    hs[(a, h)] = dict(name=n, rep=rep, perm=perm, owner=False, creator=False, inst=i, arg=arg)
                    st["open_existing"] += 1
                    st["open_arg_" + ("equal" if arg == i["size"] else "zero" if arg == 0 else "larger" if arg > i["size"] else "smaller")] += 1
                # accessibility: every byte below get_size, mapping length
                ags[a].cmd("shmtouch %d" % h)
                mp = ags[a].cmd("maps %d" % h).split()
                if int(mp[2]) < rep:
                    ok = fail("history symptom=mapping-shorter-than-size", "mapping of %s bytes for a reported size of %d" % (mp[2], rep))
                    break
                if not verify_all(what):
                    ok = False
                    break
            elif r < 0.65:
                cands = [k for k in live if hs[k]["perm"] == "w"]
                if not cands:
                    continue
                a, h = rng.choice(cands)
                hd = hs[(a, h)]
                ln = rng.choice([1, 7, 100, hd["rep"]])
                ln = min(ln, hd["rep"])
                off = rng.choice([0, hd["rep"] - ln, rng.randint(0, hd["rep"] - ln), max(0, min(hd["rep"] - ln, 4096 - ln // 2))])
                seed = rng.randint(1, 250)
                what = "write agent%d h%d off=%d len=%d" % (a, h, off, ln)
                log.append(what)
                locked = rng.random() < 0.5
                if locked and ags[a].cmd("shmlock %d" % h) != "ok":
                    ok = fail("history symptom=lock-failed", "p_shm_lock failed")
                    break
                ags[a].cmd("shmwrite %d %d %d %d" % (h, off, ln, seed))
                if locked:
                    ags[a].cmd("shmunlock %d" % h)
                hd["inst"]["img"][off:off + ln] = pattern(off, ln, seed)
                st["writes"] += 1
                if not verify_all(what):
                    ok = False
                    break
            elif r < 0.69 and len(live) >= 2:
                a, h = rng.choice(live)
                same = [k for k in live if k != (a, h) and hs[k]["inst"] is hs[(a, h)]["inst"]]
                if not same:
                    continue
                b, g = rng.choice(same)
                tag = "L%d" % step
                what = "lock-probe agent%d h%d holds, agent%d h%d must wait" % (a, h, b, g)
                log.append(what)
                if ags[a].cmd("shmlock %d" % h) != "ok":
                    ok = fail("history symptom=lock-failed", "p_shm_lock failed")
                    break
                ags[b].cmd("lock_bg %d %s" % (g, tag))
                early = ags[b].poll_bg(tag, 0.1)
                if early:
                    ags[a].cmd("shmunlock %d" % h)
                    ok = fail("history symptom=two-lock-holders", "p_shm_lock through another handle of the same segment returned while the lock was held (handles opened at different times do not share one lock)")
                    break
                ags[a].cmd("shmunlock %d" % h)
                late = ags[b].poll_bg(tag, 20)
                if not late or "acquired" not in late:
                    ok = fail("history symptom=unlock-not-seen-by-other-handle", "an unlock through one handle did not release a locker blocked on another handle of the same segment")
                    break
                ags[b].cmd("shmunlock %d" % g)
                st["lock_probes"] += 1
            elif r < 0.72:
                a, h = rng.choice(live)
                log.append("take_ownership agent%d h%d" % (a, h))
                ags[a].cmd("shmown %d" % h)
                hs[(a, h)]["owner"] = True
            else:
                cands = [k for k in live if hs[k]["owner"] or not hs[k]["creator"]]
                if not cands:
                    continue
                a, h = rng.choice(cands)
                hd = hs.pop((a, h))
                what = "free agent%d h%d (%s)" % (a, h, "owner" if hd["owner"] else "non-owner")
                log.append(what)
                before = int(ags[a].cmd("maps -1").split()[1])
                ags[a].cmd("shmfree %d" % h)
                after = int(ags[a].cmd("maps -1").split()[1])
                if after >= before:
                    ok = fail("history symptom=mapping-left-after-free", "process still has %d /dev/shm mappings after p_shm_free (before: %d)" % (after, before))
                    break
                n = hd["name"]
                if hd["owner"]:
                    st["free_owner"] += 1
                    inst[n] = None          # shm_unlink removes whatever the name is bound to now
                    if os.path.exists(agents.shm_path(n)) or os.path.exists(agents.shm_lock_path(n)):
                        ok = fail("history symptom=name-survives-owner-free", "segment or its lock semaphore still present after an owner freed it")
                        break
                    # remaining handles of that instance keep working on the old memory; drop them from the model of the NAME
                else:
                    st["free_plain"] += 1
                    if inst[n] is not None and not os.path.exists(agents.shm_path(n)):
                        ok = fail("history symptom=name-removed-by-non-owner", "segment name disappeared after a non-owner free")
                        break
                    if inst[n] is not None and not os.path.exists(agents.shm_lock_path(n)):
                        ok = fail("history symptom=lock-semaphore-removed-by-non-owner", "the segment's lock semaphore disappeared after a non-owner free while the segment is alive")
                        break
            st["ops"] += 1
    except (agents.AgentDied, agents.AgentTimeout) as e:
        fail("history symptom=agent-died", str(e)[:400])
        ok = False
    finally:
        for ag in ags:
            try:
                if ag.alive() and idx % 2:
                    stats_inj = int(ag.cmd("injected", timeout=5).split()[1])
                    (stats if "stats" in dir() else st)["eintr_injected"] += stats_inj
            except Exception:
                pass
            ag.kill()
        agents.sweep([agents.shm_path(n) for n in names] + [agents.shm_lock_path(n) for n in names])
    return ok, log, st


def lock_work(ctx, exe, nproc, iters, st, tag):
    name = "vfC07-%d-%d-lock-%s" % (os.getpid(), ctx.seed, tag)
    ags = [agents.Agent(exe, name="lk%d" % i) for i in range(nproc)]
    try:
        r = ags[0].cmd("shmnew 0 %s 4096 w" % name)
        if not r.startswith("ok"):
            ctx.violation("lock symptom=new-failed", r, None)
            return
        for a in ags[1:]:
            a.cmd("shmnew 0 %s 4096 w" % name)
        t0 = int(ags[0].cmd("now").split()[1]) + 50_000_000
        for a in ags:
            a.send("at %d shmwork 0 %d" % (t0, iters))
        for a in ags:
            try:
                a.recv(timeout=180)
            except agents.AgentTimeout:
                ctx.violation("lock symptom=hang", "locked workload did not finish (%d processes x %d)" % (nproc, iters), None)
                return
        cnt, bad = [int(x) for x in ags[0].cmd("shmcounter 0").split()[1:3]]
        st["lock_iterations"] += nproc * iters
        if cnt != nproc * iters or bad:
            ctx.violation("lock symptom=not-exclusive", "%d processes x %d locked increments gave %d, %d times another holder was seen inside" % (nproc, iters, cnt, bad), None)
        ags[0].cmd("shmown 0")
    finally:
        for a in ags:
            a.kill()
        agents.sweep([agents.shm_path(name), agents.shm_lock_path(name)])


def first_open(ctx, exe, nproc, rounds, iters, st):
    """N processes open a fresh name at the same instant, run the locked workload, a late opener reads the counter"""
    ags = [agents.Agent(exe, name="fo%d" % i) for i in range(nproc)]
    late = agents.Agent(exe, name="late")
    try:
        for rd in range(rounds):
            name = "vfC07-%d-%d-fo%d-%d" % (os.getpid(), ctx.seed, nproc, rd)
            t0 = int(ags[0].cmd("now").split()[1]) + 20_000_000
            for a in ags:
                a.send("at %d shmnew 0 %s 4096 w" % (t0, name))
            got = []
            for a in ags:
                r = a.recv(timeout=30)
                got.append(r.startswith("ok"))
            st["first_open_rounds"] += 1
            st["first_open_failed_opens"] += got.count(False)
            okc = [a for a, g in zip(ags, got) if g]
            t1 = int(ags[0].cmd("now").split()[1]) + 10_000_000
            for a in okc:
                a.send("at %d shmwork 0 %d" % (t1, iters))
            hung = False
            for a in okc:
                try:
                    a.recv(timeout=60)
                except agents.AgentTimeout:
                    hung = True
            if hung:
                ctx.violation("concurrent-first-open symptom=lock-hang", "locked workload after a concurrent first open did not finish (%d processes)" % nproc, {"round": rd})
                for a in ags:
                    a.kill()
                return
            expect = len(okc) * iters
            if okc:
                r = late.cmd("shmnew 0 %s 4096 w" % name)
                if not r.startswith("ok"):
                    ctx.violation("concurrent-first-open symptom=late-open-failed", "after %d concurrent first opens (%d succeeded) a later p_shm_new fails: %s" % (nproc, len(okc), r), {"round": rd})
                else:
                    cnt, bad = [int(x) for x in late.cmd("shmcounter 0").split()[1:3]]
                    views = set()
                    for a in okc:
                        views.add(a.cmd("shmcounter 0").split()[1])
                    if len(views) > 1 or str(cnt) not in views:
                        ctx.violation("concurrent-first-open symptom=split-segment", "handles obtained by concurrent first opens do not address the same memory: counters seen %s, late opener %d" % (sorted(views), cnt), {"round": rd})
                        st["first_open_split_segment"] += 1
                    elif cnt != expect or bad:
                        ctx.violation("concurrent-first-open symptom=split-lock", "%d processes x %d locked increments after a concurrent first open gave %d (%d overlaps seen): the handles do not share one lock" % (len(okc), iters, cnt, bad), {"round": rd})
                        st["first_open_split_lock"] += 1
                    else:
                        st["first_open_consistent"] += 1
                    late.cmd("shmown 0")
                    late.cmd("shmfree 0")
            for a in okc:
                a.cmd("shmfree 0")
            agents.sweep([agents.shm_path(name), agents.shm_lock_path(name)])
    finally:
        for a in ags + [late]:
            a.kill()


SCRIPTS = {
    "create-lock-write-free": ["shmnew 0 {n} 8192 w", "shmlock 0", "shmwrite 0 0 100 3", "shmunlock 0", "shmown 0", "shmfree 0"],
    "second-handle": ["shmnew 0 {n} 4096 w", "shmnew 1 {n} 4096 w", "shmlock 1", "shmunlock 1", "shmfree 1", "shmown 0", "shmfree 0"],
}


def shm_churn(ctx, exe, nproc, iters, ownpct, st, tag):
    """several processes loop p_shm_new(name, 4096) / maybe take_ownership / free on one name: owner frees race with the two shm_open calls of
    openers and creators.  Whatever the interleaving, afterwards the documented clean-up must work and the next p_shm_new must be fresh."""
    name = "vfC07-%d-%d-churn-%s" % (os.getpid(), ctx.seed, tag)
    ags = [agents.Agent(exe, name="sc%d" % i) for i in range(nproc)]
    try:
        t0 = int(ags[0].cmd("now").split()[1]) + 20_000_000
        for a in ags:
            a.send("at %d shmchurn %s %d %d" % (t0, name, iters, ownpct))
        for a in ags:
            try:
                r = a.recv(timeout=120)
            except agents.AgentTimeout:
                ctx.violation("churn symptom=never-finished", "%d processes looping p_shm_new / take_ownership(%d%%) / free on one name did not finish" % (nproc, ownpct), None)
                return
            if r.startswith("ok"):
                st["churn_rounds"] += int(r.split()[1])
                st["churn_open_failures"] += int(r.split()[2])
    except agents.AgentDied as e:
        ctx.violation("churn symptom=process-died", str(e)[:300], None)
        return
    finally:
        for a in ags:
            a.kill()
    recover(ctx, exe, name, "after=churn-of-%d-processes" % nproc, st)


def recover(ctx, exe, name, label, st):
    ag = agents.Agent(exe, name="recover")
    try:
        r = ag.cmd("shmnew 0 %s 4096 w" % name)
        if not r.startswith("ok"):
            ctx.violation("crash-point %s symptom=cleanup-cannot-open" % label, "p_shm_new fails (%s) at the start of the documented clean-up: no handle can be obtained; segment file size %s" %
                          (r, os.path.getsize(agents.shm_path(name)) if os.path.exists(agents.shm_path(name)) else "absent"), None)
            return
        ag.cmd("shmown 0")
        ag.cmd("shmfree 0")
        if os.path.exists(agents.shm_path(name)) or os.path.exists(agents.shm_lock_path(name)):
            ctx.violation("crash-point %s symptom=name-survives-cleanup" % label, "segment or lock semaphore still present after open / take_ownership / free", None)
            return
        r = ag.cmd("shmnew 0 %s 12288 w" % name)
        if not r.startswith("ok 12288"):
            ctx.violation("crash-point %s symptom=recreate-wrong" % label, "next p_shm_new(12288) after clean-up: %s" % r, None)
            return
        if ag.cmd("shmsum 0 0 12288") != "ok %016x" % fnv(bytes(12288)):
            ctx.violation("crash-point %s symptom=recreate-not-fresh" % label, "fresh segment is not zero-filled", None)
        ag.send("shmlock 0")
        try:
            if ag.recv(timeout=15) != "ok":
                ctx.violation("crash-point %s symptom=recreate-lock" % label, "lock of the fresh segment failed", None)
            else:
                ag.cmd("shmunlock 0")
        except agents.AgentTimeout:
            ctx.violation("crash-point %s symptom=recreate-lock" % label, "lock of the fresh segment cannot be taken", None)
            return
        ag.cmd("shmown 0")
        ag.cmd("shmfree 0")
        st["recoveries"] += 1
    except (agents.AgentDied, agents.AgentTimeout) as e:
        ctx.violation("crash-point %s symptom=cleanup-hang-or-crash" % label, str(e)[:300], None)
    finally:
        ag.kill()
        agents.sweep([agents.shm_path(name), agents.shm_lock_path(name)])


def crash_points(ctx, exe, st, scripts, calls_out):
    work = []
    for sname in scripts:
        script = SCRIPTS[sname]
        name = "vfC07-%d-%d-cp-%s" % (os.getpid(), ctx.seed, sname)
        ag = agents.Agent(exe)
        ag.cmd("log 1")
        for line in script:
            ag.cmd(line.format(n=name))
        calls = ag.cmd("log 0").split(" ", 1)[1].split(",")
        ag.close()
        agents.sweep([agents.shm_path(name), agents.shm_lock_path(name)])
        calls_out[sname] = calls
        for k in range(1, len(calls) + 1):
            for phase in (0, 1):
                nth = sum(1 for c in calls[:k] if c == calls[k - 1])
                prev = calls[k - 2] if k > 1 else "start"
                nxt = calls[k] if k < len(calls) else "end"
                # canonical: the pair of libc calls the kill falls between (occurrence index and script only in the text)
                if phase == 0:
                    label = "after=%s before=%s" % (prev, calls[k - 1])
                else:
                    label = "after=%s before=%s" % (calls[k - 1], nxt)
                work.append((sname, script, k, phase, label))

    def one(w):
        sname, script, k, phase, label = w
        name = "vfC07-%d-%d-cp-%s-%d-%d" % (os.getpid(), ctx.seed, sname, k, phase)
        ag = agents.Agent(exe)
        died = False
        try:
            ag.cmd("crashat %d %d" % (k, phase))
            for line in script:
                ag.cmd(line.format(n=name), timeout=20)
        except agents.AgentDied:
            died = True
        except agents.AgentTimeout:
            ag.kill()
            return (label, "hang", name)
        rc = ag.wait_exit(5)
        if not died and rc != -9:
            ag.kill()
            return (label, "not-fired", name)
        return (label, "killed", name)

    with cf.ThreadPoolExecutor(max_workers=12) as ex:
        results = list(ex.map(one, work))
    for label, outcome, name in results:
        if outcome == "not-fired":
            st["crash_not_fired"] += 1
            agents.sweep([agents.shm_path(name), agents.shm_lock_path(name)])
        elif outcome == "hang":
            ctx.violation("crash-point %s symptom=script-hang" % label, "script hung before reaching the crash point", None)
        else:
            st["crash_points"] += 1
            recover(ctx, exe, name, label, st)


def threads_jobs(ctx, st):
    """'in any thread': threads of one process work on different names at the same time (value oracles + ThreadSanitizer)."""
    import glob
    q = ctx.quick
    jobs = []
    for j, (variant, nt, it) in enumerate([("tsan", 4, 600), ("tsan", 8, 300), ("asan", 4, 1500), ("plain", 8, 3000)] if q else
                                          [("tsan", 4, 20000), ("tsan", 8, 10000), ("tsan", 16, 5000), ("asan", 4, 50000), ("asan", 16, 20000), ("plain", 8, 200000), ("plain", 32, 50000)]):
        exe = build.driver(variant, "c07_threads", ["c07_threads.c"])
        job = dict(cmd=[exe, "--threads", str(nt), "--iters", str(it), "--seed", str(ctx.seed * 10 + j)], variant=variant, tag="threads %s x%d" % (variant, nt), san_ctx="shm-threads",
                   hang_is_violation=True, hang_key="threads symptom=hang")
        if variant == "tsan":
            job["tsan_log"] = "/tmp/vfC07-tsan-%d-%d-%d" % (os.getpid(), ctx.seed, j)
        jobs.append(job)
    for job, r in core.run_jobs(ctx, jobs, timeout=300 if q else 3000, workers=4):
        for o in r.json_lines():
            if o.get("ev") == "stats":
                st["thread_segments"] += o["segments"]
                st["thread_bytes_checked"] += o["bytes_checked"]
                st["thread_runs"] += 1
        if job.get("tsan_log"):
            for rep in core.tsan_reports(job["tsan_log"]):
                if rep["lib_frames"]:
                    ctx.violation("threads tsan %s frames=%s" % (rep["kind"], "<".join(rep["lib_frames"][:3])),
                                  "ThreadSanitizer report with plibsys frames while threads of one process open different names", {"report": rep["text"]})
            for fn in glob.glob(job["tsan_log"] + ".*"):
                os.unlink(fn)


def run(ctx):
    q = ctx.quick
    exe = build.driver("asan", "ipc_agent", ["ipc_agent.c", "wrap_sys.c"], wraps=build.WRAPS_ALL)
    plain = build.driver("plain", "ipc_agent", ["ipc_agent.c", "wrap_sys.c"], wraps=build.WRAPS_ALL)
    st = collections.Counter()
    nh = 80 if q else 2000
    rngs = [random.Random(ctx.seed * 99991 + i) for i in range(nh)]
    samples = []
    with cf.ThreadPoolExecutor(max_workers=6) as ex:
        for ok, log, s in ex.map(lambda i: run_history(ctx, exe if i % 3 else plain, rngs[i], i), range(nh)):
            st["histories"] += 1
            st.update(s)
            if len(samples) < 3:
                samples.append(log)
    for s in samples:
        ctx.sample({"history": s})
    for (np_, it, tag) in ([(4, 2000, "a")] if q else [(2, 20000, "a"), (4, 10000, "b"), (8, 5000, "c"), (16, 2000, "d")]):
        lock_work(ctx, plain, np_, it, st, tag)
    for (np_, rounds) in ([(2, 15), (4, 15)] if q else [(2, 300), (4, 300), (8, 200), (16, 100)]):
        first_open(ctx, plain, np_, rounds, 200, st)
    for (np_, it, own, tag) in ([(3, 1500, 40, "a"), (4, 1500, 15, "b")] if q else [(2, 20000, 50, "a"), (4, 20000, 30, "b"), (8, 10000, 15, "c"), (16, 5000, 10, "d")]):
        shm_churn(ctx, plain, np_, it, own, st, tag)
    threads_jobs(ctx, st)
    calls = {}
    crash_points(ctx, exe, st, list(SCRIPTS), calls)
    cov = ctx.coverage
    cov["evaluations"] = st["ops"] + st["cross_reads"] + st["crash_points"] + st["first_open_rounds"] + st["lock_iterations"] + st["thread_segments"]
    cov["distinct_nontrivial"] = st["histories"] + st["crash_points"] + st["first_open_rounds"]
    cov["rule"] = ("evaluations = history operations + cross-handle digest comparisons (after every new/write every live handle in every process re-reads the model image) + crash points with recovery + concurrent-first-open rounds + locked increments + segments created/checked/freed by concurrent threads of one process on distinct names (also under ThreadSanitizer). "
                   "distinct_nontrivial = histories (distinct PRNG draws: 1-2 names, 2-3 processes, sizes incl. page-boundary values, size arguments equal/larger/smaller/zero, read-only handles) + crash points (script, libc call, before/after) + first-open rounds.")
    cov["stats"] = dict(st)
    cov["crash_script_calls"] = calls
    if st["open_existing"] < 10 or st["writes"] < 20 or st["free_owner"] < 5 or st["crash_points"] < 10:
        if not ctx.violations:
            raise core.Inconclusive("operation classes not exercised: %s" % dict(st))
    ctx.assumptions += ["a failed p_shm_new during a concurrent first open is counted, not alarmed (the statement does not promise success); handles that WERE obtained must share memory and lock",
                        "creator handles are freed only after take_ownership; handles left on an instance whose name an owner freed are not followed further",
                        "other IPC models (sysv) are not built on Linux by the default platform file"]

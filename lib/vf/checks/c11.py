"""C11: PCryptoHash vs hashlib / independent GOST reference, over chunkings and call sequences."""
import hashlib, os, tempfile, random, time, concurrent.futures as cf

from .. import build, core, gost_ref

LEVEL = "exploration"

ALGOS = [  # (id, name, hashlib name, block, digest len)
    (0, "md5", "md5", 64, 16), (1, "sha1", "sha1", 64, 20), (2, "sha2-224", "sha224", 64, 28), (3, "sha2-256", "sha256", 64, 32),
    (4, "sha2-384", "sha384", 128, 48), (5, "sha2-512", "sha512", 128, 64), (6, "sha3-224", "sha3_224", 144, 28),
    (7, "sha3-256", "sha3_256", 136, 32), (8, "sha3-384", "sha3_384", 104, 48), (9, "sha3-512", "sha3_512", 72, 64),
    (10, "gost3411-94", None, 32, 32),
]
BLOB = 1 << 20


class Oracle:
    def __init__(self, algo):
        self.algo = algo
        self.cache = {}

    def hexd(self, msg):
        msg = bytes(msg)
        h = self.cache.get(msg)
        if h is None:
            h = hashlib.new(self.algo[2], msg).hexdigest() if self.algo[2] else gost_ref.hexdigest(msg)
            if len(self.cache) < 200000:
                self.cache[msg] = h
        return h


def gen_cases(algo, rng, blob, quick, nrand):
    """yield (line, expected_tokens, klass).  expected tokens mirror hash_agent output."""
    aid, name, hl, block, dlen = algo
    orc = Oracle(algo)
    out = []

    def content(kind, off, ln):
        if kind == "z":
            return b"\0" * ln, "z:%d" % ln
        if kind == "f":
            return b"\xff" * ln, "f:%d" % ln
        return blob[off:off + ln], "u:%d:%d" % (off, ln)

    # A: single updates of every length around the block/padding boundaries, three contents
    top = 3 * block + 8
    for ln in range(0, top + 1):
        for kind in ("u", "z", "f"):
            if aid == 10 and quick and kind != "u" and ln % 3:
                continue
            data, tok = content(kind, rng.randrange(0, BLOB - ln - 1), ln)
            hx = orc.hexd(data)
            out.append(("%d %s s d:64 s l" % (aid, tok), [hx, "%d:%s" % (dlen, hx), hx, "%d:%d" % (dlen, aid)], "single"))
    # B: every two-way split (a, L-a)
    top2 = 2 * block + 8
    for L in range(1, top2 + 1):
        off = rng.randrange(0, BLOB - L - 1)
        hx = orc.hexd(blob[off:off + L])
        step = 1
        for a in range(0, L + 1, step):
            out.append(("%d u:%d:%d u:%d:%d s" % (aid, off, a, off + a, L - a), [hx], "split2"))
    # C: random call sequences
    for _ in range(nrand):
        msg = bytearray()
        closed = False
        toks = [str(aid)]
        exp = []
        nops = rng.randint(1, 14)
        maxlen = rng.choice([3, block // 2, block, 2 * block + 3, 5 * block])
        if aid == 10:
            maxlen = min(maxlen, 3 * block)
        failed_d = False
        for _i in range(nops):
            r = rng.random()
            if r < 0.55 and not failed_d:
                ln = rng.choice([0, 0, 1, block - 1, block, block + 1, rng.randint(0, maxlen), rng.randint(0, maxlen)])
                ln = min(ln, maxlen)
                kind = rng.choice("uuuzf")
                data, tok = content(kind, rng.randrange(0, BLOB - ln - 1), ln)
                toks.append(tok)
                if not closed:
                    msg += data
            elif r < 0.65:
                toks.append("r")
                msg = bytearray()
                closed = False
                failed_d = False
            elif r < 0.82:
                toks.append("s")
                exp.append(orc.hexd(msg))
                closed = True
                failed_d = False
            elif r < 0.95:
                bs = rng.choice([dlen, dlen, dlen + 1, 64, 100])
                toks.append("d:%d" % bs)
                hx = orc.hexd(msg)
                exp.append("%d:%s" % (dlen, hx))
                closed = True
                failed_d = False
            else:
                bs = rng.choice([0, 1, dlen - 1, dlen // 2])
                toks.append("d:%d" % bs)
                exp.append("0:")
                failed_d = True
        toks.append("s")
        exp.append(orc.hexd(msg))
        out.append((" ".join(toks), exp, "sequence"))
    return out


def _large_expected(hl, prefix, total):
    h = hashlib.new(hl)
    h.update(bytes((i + 1) & 255 for i in range(prefix)))
    z = bytes(1 << 24)
    left = total
    while left:
        n = min(left, len(z))
        h.update(z[:n])
        left -= n
    return h.hexdigest()


def run(ctx):
    q = ctx.quick
    bad = gost_ref.self_test()
    gost_ok = not bad
    if not gost_ok:
        ctx.notes.append("gost_ref self-test failed; GOST cases skipped")
    asan = build.driver("asan", "hash_agent", ["hash_agent.c"])
    plain = build.driver("plain", "hash_agent", ["hash_agent.c"])
    rng = ctx.rng
    blob = random.Random(ctx.seed).randbytes(BLOB)
    tmpd = tempfile.mkdtemp(prefix="vfC11-")
    blobf = os.path.join(tmpd, "blob")
    with open(blobf, "wb") as f:
        f.write(blob)
    stats = {"cases": 0, "by_class": {}, "by_algo": {}, "distinct_messages": 0, "read_ops_compared": 0}
    t0 = time.time()

    # ---- large inputs (run in background while the small cases go) ----
    large_jobs = []
    if q:
        large_set = [(0, 3), (1, 3), (3, 3)]
        total = (1 << 32) + 5
        for aid, prefix in large_set:
            large_jobs.append((aid, total, 0, prefix))
        # lengths whose BIT count needs more than 29..32 bits: the carry from the low into the high word of the appended length
        for a in ALGOS:
            if a[2]:
                large_jobs.append((a[0], (1 << 26) + 5, 0, 3))
                large_jobs.append((a[0], (1 << 29) + (1 << 27) + 3, 1 << 26, 0))
    else:
        total = (1 << 32) + 5
        for a in ALGOS:
            large_jobs.append((a[0], total, 0, 0))
            large_jobs.append((a[0], total, 0, 3))
            large_jobs.append((a[0], total, 1 << 26, 3))
            large_jobs.append((a[0], total, (1 << 26) + 1, 0))
            if a[2]:
                for tot2 in ((1 << 26) + 5, (1 << 27) + (1 << 26) + 1, (1 << 29) + 3, (1 << 31) + (1 << 30) + (1 << 28) + 7, (1 << 32) - 1):
                    large_jobs.append((a[0], tot2, 0 if tot2 & 1 else (1 << 25) + 3, tot2 & 3))
    pool = cf.ThreadPoolExecutor(max_workers=16)
    lf = []
    for (aid, tot, chunk, prefix) in large_jobs:
        cmd = [plain, "--large", str(aid), str(tot), str(chunk), str(prefix)]
        lf.append(((aid, tot, chunk, prefix), pool.submit(core.run, cmd, 3600, core.env_for("plain"))))
    expf = {}
    for (aid, tot, chunk, prefix) in large_jobs:
        hl = ALGOS[aid][2]
        if hl and (aid, prefix, tot) not in expf:
            expf[(aid, prefix, tot)] = pool.submit(_large_expected, hl, prefix, tot)

    # ---- small cases ----
    def work(algo):
        nrand = (600 if algo[0] == 10 else 2500) if q else (20000 if algo[0] == 10 else 150000)
        arng = random.Random(ctx.seed * 131 + algo[0])
        cases = gen_cases(algo, arng, blob, q, nrand)
        # several agents per algorithm in thorough tier
        nparts = 1 if q else 4
        viol = []
        for part in range(nparts):
            sub = cases[part::nparts]
            r = core.run([asan, blobf], 1800, env=core.env_for("asan"), stdin="".join(c[0] + "\n" for c in sub))
            if r.timed_out:
                viol.append(("hang", "algo=%s symptom=hang" % algo[1], "hash agent did not finish", None))
                continue
            if r.rc != 0:
                san = r.san_report()
                viol.append(("san", "algo=%s sanitizer %s" % (algo[1], (san[0] + " " + "<".join(san[1])) if san else "rc=%d" % r.rc), r.err[-3000:], None))
                continue
            lines = r.out.split("\n")
            for i, c in enumerate(sub):
                got = lines[i].split() if i < len(lines) else []
                if got != c[1]:
                    sym = "digest-mismatch"
                    for g, e in zip(got, c[1]):
                        if g != e:
                            if e == "0:":
                                sym = "small-buffer-get-digest"
                            elif g.lower() == e and g != e:
                                sym = "hex-not-lowercase"
                            elif len(g) != len(e):
                                sym = "wrong-length"
                            break
                    viol.append(("mismatch", "algo=%s class=%s symptom=%s" % (algo[1], c[2], sym), "case `%s` expected %s got %s" % (c[0], c[1], got), c[0]))
                    if len(viol) > 5:
                        break
        nread = sum(len(c[1]) for c in cases)
        klass = {}
        for c in cases:
            klass[c[2]] = klass.get(c[2], 0) + 1
        return algo, len(cases), nread, klass, viol, cases[len(cases) // 2][0], cases[-1][0]

    algos = [a for a in ALGOS if a[0] != 10 or gost_ok]
    with cf.ProcessPoolExecutor(max_workers=11) if False else cf.ThreadPoolExecutor(max_workers=11) as ex:
        for algo, n, nread, klass, viol, s1, s2 in ex.map(work, algos):
            stats["cases"] += n
            stats["read_ops_compared"] += nread
            stats["by_algo"][algo[1]] = n
            for k, v in klass.items():
                stats["by_class"][k] = stats["by_class"].get(k, 0) + v
            for (_, key, what, case) in viol:
                ctx.violation(key, what, {"case": case})
            ctx.sample({"algo": algo[1], "case": s1})
            ctx.sample({"algo": algo[1], "case": s2})

    # ---- collect large ----
    large_res = []
    by = {}
    for (spec, fut) in lf:
        aid, tot, chunk, prefix = spec
        r = fut.result()
        o = [x for x in r.json_lines() if x.get("ev") == "large"]
        if r.timed_out or r.rc != 0 or not o:
            raise core.Inconclusive("large-input agent failed for %s: rc=%s %s" % (spec, r.rc, r.err[-500:]))
        hx = o[0]["hex"]
        by[spec] = hx
        large_res.append({"algo": ALGOS[aid][1], "total": tot, "chunk": chunk, "prefix": prefix, "hex": hx, "wall": o[0]["wall"]})
        name = ALGOS[aid][1]
        if (aid, prefix, tot) in expf:
            e = expf[(aid, prefix, tot)].result()
            if hx != e:
                ctx.violation("algo=%s class=large-%s symptom=digest-mismatch" % (name, "single-update" if chunk == 0 else "chunked"),
                              "%d zero bytes after %d prefix bytes, %s: got %s expected %s" % (tot, prefix, "one update" if chunk == 0 else "chunks of %d" % chunk, hx, e), spec)
    if not q:
        # GOST: differential single-update vs chunked (no independent oracle at 4 GiB)
        for prefix in (0, 3):
            single = by.get((10, total, 0, prefix))
            chunked = by.get((10, total, (1 << 26) if prefix else (1 << 26) + 1, prefix))
            if single and chunked and single != chunked:
                ctx.violation("algo=gost3411-94 class=large-single-update symptom=differs-from-chunked",
                              "2^32+5 zero bytes (prefix %d): single update %s, chunked %s" % (prefix, single, chunked), None)
    pool.shutdown()
    stats["large"] = large_res
    cov = ctx.coverage
    cov["evaluations"] = stats["cases"] + len(large_res)
    cov["distinct_nontrivial"] = stats["cases"]
    cov["rule"] = ("one case = one PCryptoHash object driven through a generated call sequence; every read (get_string / get_digest) is compared with hashlib "
                   "(GOST: independent pure-Python reference, self-tested on 8 published vectors). Classes: single update of every length 0..3*block+8 with random/0x00/0xff "
                   "content; every two-way split (a, L-a) for L <= 2*block+8; random sequences of update(empty, boundary, random)/reset/get_string/get_digest"
                   "(exact, larger, too-small buffers)/updates after a read; large = 2^32+5 bytes in one update or in 64 MiB chunks, plus 64 MiB .. 4 GiB-1 lengths whose bit count carries into the high word of the appended length. All generated cases are distinct "
                   "call sequences (offsets/lengths differ), counted as generated.")
    cov["stats"] = stats
    cov["gost_reference_selftest"] = "ok" if gost_ok else "FAILED"
    ctx.assumptions += ["hashlib (OpenSSL) is the standard digest oracle for MD5/SHA-1/SHA-2/SHA-3",
                        "GOST R 34.11-94 oracle is lib/vf/gost_ref.py, validated only by its published test vectors; at 4 GiB GOST is checked differentially (single update vs chunked) because the Python reference is too slow",
                        "too-small-buffer get_digest is followed by a read or reset before the next update (documentation is silent on whether it closes the context)"]
    try:
        for fn in os.listdir(tmpd):
            os.unlink(os.path.join(tmpd, fn))
        os.rmdir(tmpd)
    except OSError:
        pass
    if stats["cases"] < 1000:
        raise core.Inconclusive("too few cases")

from .. import build, core

LEVEL = "fault_enumeration"


def run(ctx):
    q = ctx.quick
    jobs = []
    for variant in ("asan", "plain"):
        exe = build.driver(variant, "c19_sig", ["c19_sig.c", "wrap_sys.c"], wraps=build.WRAPS_ALL)
        for i in range(6 if q else 16):
            jobs.append(dict(cmd=[exe, "--mode", "signals", "--n", str(24 if q else 300), "--seed", str(ctx.seed * 100 + i)], variant=variant, tag="signals %s %d" % (variant, i),
                             san_ctx="c19-signals", hang_is_violation=True, hang_key="symptom=hang-under-signals"))
        jobs.append(dict(cmd=[exe, "--mode", "inject", "--K", str(8 if q else 24), "--burst", str(3 if q else 6), "--seed", str(ctx.seed)], variant=variant, tag="inject " + variant,
                         san_ctx="c19-inject", hang_is_violation=True, hang_key="symptom=hang-under-injected-eintr"))
    res = core.run_jobs(ctx, jobs, timeout=240 if q else 2400, workers=8)
    tot = {}
    fired = {}
    for job, r in res:
        for o in r.json_lines():
            if o.get("ev") == "stats":
                for k, v in o.items():
                    if isinstance(v, int) and k != "viol":
                        tot[k] = tot.get(k, 0) + v
                for k, v in o["fired_by_call"].items():
                    fired[k] = fired.get(k, 0) + v
    cov = ctx.coverage
    cov["evaluations"] = tot.get("signal_cases", 0) + tot.get("inj_cases", 0)
    cov["distinct_nontrivial"] = tot.get("cases_with_signal_during_call", 0) + tot.get("inj_fired", 0)
    cov["rule"] = ("evaluations = real-signal cases (one blocked library call under a SIGUSR1 storm, handler without SA_RESTART) + injection cases (libc call id, k, burst). "
                   "distinct_nontrivial = real-signal cases in which at least one signal was handled inside the storm window + injection cases whose EINTR actually fired "
                   "(each has a distinct (call, k, burst) or PRNG draw). Calls: p_uthread_sleep, p_semaphore_acquire, p_shm_lock (blocked until a helper releases), blocking accept/receive with late peer/data; "
                   "injection into clock_nanosleep, nanosleep, sem_wait, sem_open, shm_open, poll, connect, accept, recv, send, recvfrom, sendto with each call's real error contract.")
    cov["totals"] = tot
    cov["injections_fired_by_libc_call"] = fired
    ctx.sample({"real_signal_case": "p_semaphore_acquire on value 0; helper posts after 5-65 ms; SIGUSR1 every 50us-3ms; must return TRUE only after the post"})
    ctx.sample({"injection_case": "clock_nanosleep returns EINTR (as its value) on calls 1..3 of p_uthread_sleep(7): must return 0 after >= 7 ms"})
    need = ["sem_wait", "sem_open", "shm_open", "clock_nanosleep", "poll", "connect", "accept", "recv", "send", "recvfrom", "sendto"]
    missing = [n for n in need if not fired.get(n)]
    if missing and not ctx.violations:
        raise core.Inconclusive("injection never fired for %s" % missing)
    if tot.get("sleeps_longer_than_1s", 0) < 2:
        raise core.Inconclusive("no interrupted sleep longer than one second was driven")
    if tot.get("cases_with_signal_during_call", 0) < tot.get("signal_cases", 0) * 0.5:
        raise core.Inconclusive("signals rarely landed inside calls")
    ctx.assumptions += ["nanosleep is wrapped too but this build uses clock_nanosleep (injection there never fires and is not required)",
                        "a signal 'during the call' is approximated by the storm window around the call; lower time bounds carry 10us clock slop",
                        "periodic signals faster than a socket timeout can starve a timed wait forever (the retry restarts the full timeout); only finite storms are used"]

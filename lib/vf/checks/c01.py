import glob, os

from .. import build, core

LEVEL = "exploration"

#            variant         model   kinds  tsan
VARIANTS = [("asan", "c11", None), ("tsan", "c11", None), ("plain", "c11", 1), ("plain-sync", "sync", 1), ("asan-sync", "sync", 1), ("plain-simgen", "sim", 1), ("tsan-simgen", "sim", 1)]


def run(ctx):
    q = ctx.quick
    sd = ctx.seed
    jobs = []
    for variant, model, kind in VARIANTS:
        hb = variant.startswith("tsan")
        exe = build.driver(variant, "c01_lock", ["c01_lock.c"], defines=['VH_MODEL="%s"' % model] + (["HB_MODE"] if hb else []))
        # (mutex threads, spinlock threads, weight): spinning under oversubscription / TSan burns CPU, so spin phases are short
        sets = [("2,4,16", "2,4", 1), ("64", "8", 1), ("32", "32", 6)] if q else [("2,4", "2,4", 1), ("8,16", "8", 1), ("32", "16", 2), ("64", "32", 6), ("3,5,24", "3,64", 8)]
        for (mt, st, heavy) in sets:
            if hb and model == "c11":
                st = ",".join(t for t in st.split(",") if int(t) <= 8) or "2"
            for rep in range(1 if q else 3):
                n = (120000 if q else 2000000) // heavy
                sn = (60000 if q else 1000000) // (heavy * heavy)
                if hb:
                    n //= 10
                    sn //= 20
                if variant.startswith("asan"):
                    n //= 2
                    sn //= 2
                cmd = [exe, "--threads", mt, "--spin-threads", st, "--n", str(n), "--spin-n", str(max(sn, 400)), "--handshakes", str(500 if q else 10000), "--seed", str(sd * 10 + rep), "--stall", "45"]
                if kind is not None:
                    cmd += ["--kind", str(kind)]
                if mt == sets[0][0] and rep == 0 and not hb:
                    cmd += ["--long-hold-ms", "600" if q else "2500"]       # a waiter spinning for a long time inside lock() must still be kept out
                job = dict(cmd=cmd, variant=variant, tag="%s T=%s/%s" % (variant, mt, st), san_ctx="lock-" + model, model=model)
                if hb:
                    job["tsan_log"] = "/tmp/vfC01-%s-%d-%s-%d" % (variant, sd, mt.replace(",", "_"), rep)
                jobs.append(job)
    # classify hangs: a hang inside the handshake phase means trylock blocked
    # a real deadlock is reported by the driver's own progress watchdog (no acquisition for 90 s); an outer time-out is inconclusive
    res = core.run_jobs(ctx, jobs, timeout=900 if q else 3600, workers=4)
    per = {}
    ntsan = 0
    for job, r in res:
        for o in r.json_lines():
            if o.get("ev") == "stats":
                p = per.setdefault(o["model"] + ("+tsan" if job["variant"].startswith("tsan") else ""), {})
                for k, v in o.items():
                    if isinstance(v, int) and k != "viol":
                        p[k] = max(p.get(k, 0), v) if k == "max_waiting" else p.get(k, 0) + v
        if job.get("tsan_log"):
            for rep in core.tsan_reports(job["tsan_log"]):
                ntsan += rep["count"]
                fr = "<".join(rep["lib_frames"][:3]) if rep["lib_frames"] else "protected-data"
                ctx.violation("model=%s tsan %s frames=%s" % (job["model"], rep["kind"], fr),
                              "ThreadSanitizer: accesses inside critical sections are not ordered by the lock (%s)" % job["tag"], {"report": rep["text"]})
            for fn in glob.glob(job["tsan_log"] + ".*"):
                os.unlink(fn)
    cov = ctx.coverage
    cov["evaluations"] = sum(p.get("acquisitions", 0) + p.get("handshakes", 0) + p.get("single_thread_iters", 0) for p in per.values())
    cov["distinct_nontrivial"] = sum(p.get("handoff_filled", 0) for p in per.values())
    cov["rule"] = ("evaluations = lock acquisitions (each runs the in-section monitors: owner word, record consistency, counter) + trylock handshakes + single-thread iterations. "
                   "distinct_nontrivial = distinct (previous holder -> next holder) hand-off pairs observed, summed over phases (thread count x lock count x build); a filled cell proves that ordered pair of threads "
                   "really exchanged the lock. Thread counts 2..64 (4x cores), 1 or 3 lock objects, lock/trylock mix, busy or yielding sections. Builds: mutex asan+tsan; spinlock c11 plain/asan/tsan, sync plain/asan, sim plain/tsan.")
    cov["per_model"] = per
    cov["tsan_reports"] = ntsan
    ctx.sample({"stress": "T=16 threads, 3 spinlocks, 30% trylock; in-section: owner xchg must see 0, record of previous holder consistent, seq++"})
    ctx.sample({"handshake": "holder locks -> posts; prober trylock must be FALSE and must return; ack; holder unlocks -> prober trylock must be TRUE"})
    for m in ("c11", "sync", "sim", "c11+tsan", "sim+tsan"):
        if per.get(m, {}).get("acquisitions", 0) < 1000:
            raise core.Inconclusive("model %s not exercised" % m)
    ctx.assumptions += ["TSan is not applied to the sync spinlock (volatile store + __sync_synchronize is a correct release on x86-64 but not modelled by TSan)",
                        "interleavings are whatever the OS scheduler produces under 2..64 threads on 16 cores"]

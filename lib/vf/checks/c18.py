"""C18: allocation-failure enumeration (every k, once and sticky) over all module scenarios."""
import json, os, re, subprocess

from .. import build, core

PROP_FILES = ["src/" + f for f in ("pdir-posix.c pinifile.c plist.c ptree.c ptree-bst.c ptree-rb.c ptree-avl.c phashtable.c pstring.c perror.c pipc.c psemaphore-posix.c pshm-posix.c pshmbuffer.c psocket.c psocketaddress.c pcryptohash.c pcryptohash-md5.c pcryptohash-sha1.c pcryptohash-sha2-256.c pcryptohash-sha2-512.c pcryptohash-sha3.c pcryptohash-gost3411.c puthread.c puthread-posix.c prwlock-posix.c prwlock-general.c plibraryloader-posix.c pmutex-posix.c pcondvariable-posix.c pspinlock-c11.c ptimeprofiler.c").split()]
LEVEL = "fault_enumeration"
SKIP = {"p_malloc", "p_malloc0", "p_realloc", "p_free", "va_malloc", "va_realloc", "va_free"}


def symbolize(exe, addrs):
    addrs = sorted(set(addrs))
    if not addrs:
        return {}
    out = subprocess.run(["addr2line", "-f", "-e", exe] + addrs, stdout=subprocess.PIPE, text=True).stdout.split("\n")
    res = {}
    for i, a in enumerate(addrs):
        res[a] = out[2 * i] if 2 * i < len(out) else "??"
    return res


def site(bt, sym):
    names = []
    for a in bt:
        n = sym.get(a, "??")
        if n in SKIP or not re.match(r"pp?_[a-z]", n):
            continue
        if n not in names:
            names.append(n)
        if len(names) == 2:
            break
    return "<".join(names) if names else "?"


def run_variant(ctx, variant, scenarios, modes, agg):
    exe = build.driver(variant, "c18_oom", ["c18_oom.c"], extra=["-no-pie"])
    jobs = [dict(cmd=[exe, "--scenario", sc, "--modes", str(modes)], variant=variant, tag="%s %s" % (variant, sc)) for sc in scenarios]
    import concurrent.futures as cf

    def one(job):
        env = core.env_for(variant)
        if variant == "asan":
            env.update(core.lsan_env(exe))
        return job, core.run(job["cmd"], 1800, env=env)

    with cf.ThreadPoolExecutor(max_workers=16) as ex:
        results = list(ex.map(one, jobs))
    for job, r in results:
        sc = job["cmd"][2]
        if r.timed_out:
            raise core.Inconclusive("scenario %s timed out" % sc)
        if r.rc != 0:
            raise core.Inconclusive("driver failed for %s rc=%s: %s" % (sc, r.rc, r.err[-800:]))
        lines = r.json_lines()
        # sanitizer reports of children, by pid
        reports = {}
        for m in re.finditer(r"==(\d+)==ERROR: AddressSanitizer.*?(?===\d+==ABORTING|\Z)", r.err, re.S):
            reports.setdefault(int(m.group(1)), m.group(0))
        for m in re.finditer(r"(\S+:\d+:\d+: runtime error:.*?)(?=\n\S+:\d+:\d+: runtime error:|\n==\d+==|\Z)", r.err, re.S):
            pass
        addrs = []
        for o in lines:
            if o.get("ev") == "fired":
                addrs += o["bt"]
            elif o.get("ev") == "case":
                for lk in o["leaks"]:
                    addrs += lk["bt"]
        sym = symbolize(exe, addrs)
        fired = {o["pid"]: o for o in lines if o.get("ev") == "fired"}
        st = agg.setdefault(sc + "@" + variant, {"N": None, "cases": 0, "fired": 0, "clean": 0, "leak": 0, "crash": 0, "damage": 0, "sites": set()})
        for o in lines:
            ev = o.get("ev")
            if ev == "stats":
                st["N"] = o["N"]
                st["cases"] = o["cases"]
                if o["N"] < 0:
                    raise core.Inconclusive("clean run of scenario %s failed" % sc)
            elif ev == "case":
                if o["k"] == 0:
                    if o["nleaks"] or o["damage"] or o["bad_free"]:
                        # without any injected failure: this is a plain leak/damage in the scenario (reported, keyed as clean-run)
                        for lk in o["leaks"]:
                            ctx.violation("leak clean-run alloc-site=%s" % site(lk["bt"], sym), "scenario %s leaks %d bytes without any injected failure" % (sc, lk["size"]), o)
                        if o["damage"]:
                            ctx.violation("damage clean-run scenario=%s" % sc, o["damage"], o)
                    continue
                f = fired.get(o["pid"])
                fsite = site(f["bt"], sym) if f else "not-fired"
                if f:
                    st["fired"] += 1
                    st["sites"].add(fsite)
                ok = True
                for lk in o["leaks"]:
                    ok = False
                    st["leak"] += 1
                    ctx.violation("leak alloc-site=%s failed-alloc=%s" % (site(lk["bt"], sym), fsite),
                                  "scenario %s k=%d %s: block of %d bytes still allocated after everything was freed and the library shut down" % (sc, o["k"], "sticky" if o["sticky"] else "once", lk["size"]),
                                  {"case": o, "leak_bt": [sym.get(a) for a in lk["bt"]], "failed_bt": [sym.get(a) for a in (f["bt"] if f else [])]})
                if o["damage"]:
                    ok = False
                    st["damage"] += 1
                    ctx.violation("damage scenario=%s failed-alloc=%s what=%s" % (sc, fsite, re.sub(r"\d+", "N", o["damage"])), "scenario %s k=%d: %s" % (sc, o["k"], o["damage"]), o)
                if o.get("shm_maps_left", 0) > 0 or o.get("fds_left", 0) > 0:
                    ok = False
                    what = "shared-memory mapping" if o.get("shm_maps_left", 0) > 0 else "descriptor"
                    ctx.violation("resource-left kind=%s scenario=%s failed-alloc=%s" % (what.split()[0], sc, fsite),
                                  "scenario %s k=%d %s: %d %s(s) of this process still present after the failed call returned and everything was freed" % (sc, o["k"], "sticky" if o["sticky"] else "once", max(o.get("shm_maps_left", 0), o.get("fds_left", 0)), what), o)
                if o["bad_free"]:
                    ok = False
                    ctx.violation("bad-free scenario=%s failed-alloc=%s" % (sc, fsite), "scenario %s k=%d: %d frees of blocks that are not live (double/foreign free)" % (sc, o["k"], o["bad_free"]), o)
                if ok:
                    st["clean"] += 1
            elif ev == "lsan":
                # LeakSanitizer: memory unreachable after the scenario freed everything and the library shut down.  Blocks that came through the
                # allocator table (va_malloc/va_realloc frames) are already judged by the table oracle; the others were obtained from libc
                # on the library's behalf (getaddrinfo, ...) and never released.
                f = fired.get(o["pid"])
                fsite = site(f["bt"], sym) if f else "not-fired"
                for blk in re.split(r"\n(?=(?:Direct|Indirect) leak of )", o.get("stderr", "")):
                    if not blk.startswith("Direct leak"):
                        continue
                    fr = re.findall(r"#\d+ 0x[0-9a-f]+ in (\S+)", blk)
                    if any(x in ("va_malloc", "va_realloc") for x in fr):
                        continue
                    libfr = [x for x in fr if re.match(r"pp?_[a-z]", x)]
                    st["leak"] += 1
                    ctx.violation("leak-outside-allocator-table via=%s in=%s failed-alloc=%s" % (fr[1] if len(fr) > 1 else (fr[0] if fr else "?"), "<".join(libfr[:2]) or "?", fsite),
                                  "scenario %s k=%d %s: %s ; obtained from the C library during a call of %s and never released" % (sc, o["k"], "sticky" if o["sticky"] else "once", blk.splitlines()[0], "<".join(libfr[:2]) or "?"),
                                  {"case": {k: v for k, v in o.items() if k != "stderr"}, "report": blk[:3000]})
            elif ev == "crash":
                st["crash"] += 1
                f = fired.get(o["pid"])
                fsite = site(f["bt"], sym) if f else "not-fired"
                rep = o.get("stderr", "") or reports.get(o["pid"], "")
                san = core.parse_san(rep)
                if san:
                    kind, frames = san
                    where = frames[0] if frames else "?"
                else:
                    kind, where = ("signal-%s" % o["signal"]) if o.get("signal") else ("exit-%s" % o.get("exit")), "?"
                ctx.violation("crash %s in=%s failed-alloc=%s" % (kind, where, fsite),
                              "scenario %s k=%d %s: process crashed (%s) after the allocation at %s failed" % (sc, o["k"], "sticky" if o["sticky"] else "once", kind, fsite),
                              {"case": o, "report": rep[:5000], "failed_bt": [sym.get(a) for a in (f["bt"] if f else [])]})


def run(ctx):
    q = ctx.quick
    exe = build.driver("asan", "c18_oom", ["c18_oom.c"], extra=["-no-pie"])
    scen = subprocess.run([exe, "--list"], stdout=subprocess.PIPE, text=True, env=core.env_for("asan")).stdout.split()
    agg = {}
    run_variant(ctx, "asan", scen, 1 if q else 3, agg)
    run_variant(ctx, "asan-simgen", ["locks", "init_shutdown", "thread"], 1 if q else 3, agg)
    cov = ctx.coverage
    cases = sum(s["cases"] for s in agg.values())
    sites = set()
    for s in agg.values():
        sites |= s["sites"]
    cov["evaluations"] = cases
    cov["distinct_nontrivial"] = len(sites)
    cov["exhaustive"] = True
    cov["rule"] = ("one case = (scenario, k, mode): the k-th allocation made during the scenario fails (mode once) or it and all later ones fail (sticky; thorough tier), "
                   "for EVERY k = 1..N+1 where N is the scenario's allocation count in a clean run (exhaustive over k). distinct_nontrivial = distinct failing allocation sites "
                   "(two innermost plibsys functions of the failing call's backtrace) that actually fired. Oracles per case: no crash/ASan report, no live tracked block after frees + p_libsys_shutdown, "
                   "pre-existing containers/objects unchanged (scenario self-checks), no double/foreign free.")
    cov["per_scenario"] = {k: {kk: (sorted(vv) if isinstance(vv, set) else vv) for kk, vv in v.items()} for k, v in agg.items()}
    cov["failing_sites"] = sorted(sites)
    # static cross-check of reach: every function of the anchored sources that calls an allocating primitive, against the functions seen in failing backtraces
    try:
        import re as _re
        seen = set(x for st in sites for x in st.split("<"))
        allf, never = set(), set()
        for f in PROP_FILES:
            pth = os.path.join(build.REPO, f)
            if not os.path.exists(pth):
                continue
            fn = None
            for m in _re.finditer(r'^(\w+) \([^;{]*?\)\n\{|(p_malloc0?|p_realloc|p_strdup|p_list_append|p_list_prepend|p_error_new\w*|p_strchomp) \(', open(pth, errors="replace").read(), _re.M | _re.S):
                if m.group(1):
                    fn = m.group(1)
                elif fn:
                    allf.add(fn)
                    if fn not in seen:
                        never.add(fn)
        cov["allocating_functions_in_anchored_sources"] = len(allf)
        cov["allocating_functions_never_failed"] = sorted(never)
    except Exception as e:       # reach report only; never decides the verdict
        cov["allocating_functions_never_failed"] = "scan failed: %s" % e
    for k in list(agg)[:3]:
        ctx.sample({"scenario": k, "N": agg[k]["N"], "k_enumerated": "1..%s" % ((agg[k]["N"] or 0) + 1), "sites": sorted(agg[k]["sites"])[:6]})
    if cases < 100 or len(sites) < 10:
        raise core.Inconclusive("too few cases/sites: %d/%d" % (cases, len(sites)))
    cov["leak_sanitizer_queries"] = "on (probe with an intentional leak was reported)" if core.lsan_env(exe) else "off: the leak checker does not work in this environment (libc-level leaks are then not observed)"
    ctx.assumptions += ["only allocations routed through the PMemVTable are failed (libc-internal allocations of fopen/opendir/dlopen/getaddrinfo are not)",
                        "a block retained in a global and released by p_libsys_shutdown is not counted as a leak",
                        "scenarios are representative call sequences per module, not every public entry point in every state"]

from .. import build, core

LEVEL = "exploration"


def run(ctx):
    exe = build.driver("asan", "c15_cont", ["c15_cont.c"])
    q = ctx.quick
    jobs = []
    n = 16 if q else 32
    per_t = 250000 if q else 1000000
    per_l = 250000 if q else 1000000
    for i in range(n):
        jobs.append(dict(cmd=[exe, "--mode", "table", "--ops", str(per_t), "--seed", str(ctx.seed * 1000 + i)], variant="asan", tag="table seed%d" % i, san_ctx="hashtable"))
        jobs.append(dict(cmd=[exe, "--mode", "list", "--ops", str(per_l), "--seed", str(ctx.seed * 1000 + i)], variant="asan", tag="list seed%d" % i, san_ctx="list"))
    for j in jobs:      # single-threaded deterministic drivers: not finishing is a call that never returns (e.g. a cycle in a bucket chain)
        j.setdefault("hang_is_violation", True)
        j.setdefault("hang_key", "symptom=hang (a container call never returned)")
    res = core.run_jobs(ctx, jobs, timeout=240 if q else 3000)
    tot = {}
    lst = {}
    classes = [0] * 8
    for job, r in res:
        for o in r.json_lines():
            if o.get("ev") != "stats":
                continue
            for k, v in o.items():
                if isinstance(v, int) and k not in ("viol",):
                    tot[k] = tot.get(k, 0) + v
            for k, v in o["list"].items():
                lst[k] = max(lst.get(k, 0), v) if k == "maxlen" else lst.get(k, 0) + v
            for i, v in enumerate(o["key_classes"]):
                classes[i] += v
    cov = ctx.coverage
    cov["evaluations"] = tot.get("ops", 0)
    cov["distinct_nontrivial"] = tot.get("distinct_keys", 0)
    cov["rule"] = ("evaluations = hash-table and list operations, each followed by model comparison (affected key + 3 random pool keys, walk of the whole list); "
                   "full comparison (every pool key, keys/values/lookup_by_value multisets) every ~48 ops. distinct_nontrivial = distinct key bit patterns "
                   "inserted into a table (hash set per driver process, summed over processes whose PRNG streams differ). Keys come from classes: "
                   "INT_MAX-adjacent low word with several high words, negative low words, -1-adjacent, random 64-bit, tiny, congruent modulo 101 (one chain), heap pointers, plus NULL/1/all-ones.")
    cov["table"] = {k: v for k, v in tot.items() if k not in ("ops",)}
    cov["list"] = lst
    cov["key_class_counts"] = dict(zip(["intmax_adjacent", "negative_low", "minus1_adjacent", "random64", "tiny", "mod101_chain", "mod101_chain_hi", "heap"], classes))
    ctx.sample({"table_op_mix": "insert/overwrite/remove(hit,miss)/lookup over a 384-key pool; e.g. key 0x7fffffff, 0x7fff7fffffdb, 0xffffffff80000000, 64+101*k"})
    ctx.sample({"list_op_mix": "append/prepend/remove(first occurrence | absent | head | tail)/reverse/foreach/free; data in {NULL, -1, k*0x100000001}"})
    if tot.get("overwrite", 0) < 100 or tot.get("remove_hit", 0) < 100 or classes[0] < 10 or lst.get("reverse", 0) < 10:
        raise core.Inconclusive("operation classes not exercised enough")
    ctx.assumptions += ["UBSan/ASan report = violation of 'no undefined behaviour for any pointer value' on the executed inputs only",
                        "pointer values are never dereferenced by the containers (identity keys), so arbitrary bit patterns are legal inputs"]

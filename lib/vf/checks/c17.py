from .. import build, core

LEVEL = "exploration"


def run(ctx):
    exe = build.driver("asan", "c17_addr", ["c17_addr.c"])
    q = ctx.quick
    jobs = []
    nt = 12 if q else 32
    for i in range(nt):
        jobs.append(dict(cmd=[exe, "--mode", "text", "--n", str(100000 if q else 300000), "--seed", str(ctx.seed * 1000 + i)], variant="asan", tag="text seed%d" % i, san_ctx="addr-text"))
        jobs.append(dict(cmd=[exe, "--mode", "native", "--n", str(2500 if q else 6000), "--seed", str(ctx.seed * 1000 + i)], variant="asan", tag="native seed%d" % i, san_ctx="addr-native"))
    jobs.append(dict(cmd=[exe, "--mode", "ports"], variant="asan", tag="ports", san_ctx="addr-ports"))
    for j in jobs:      # single-threaded deterministic drivers: not finishing is a call that never returns (e.g. a cycle in a bucket chain)
        j.setdefault("hang_is_violation", True)
        j.setdefault("hang_key", "symptom=hang (an address call never returned)")
    res = core.run_jobs(ctx, jobs, timeout=240 if q else 3000)
    tot = {}
    for job, r in res:
        for o in r.json_lines():
            if o.get("ev") == "stats":
                for k, v in o.items():
                    if isinstance(v, int) and k != "viol":
                        tot[k] = tot.get(k, 0) + v
    cov = ctx.coverage
    cov["evaluations"] = tot.get("text_cases", 0) + tot.get("from_native_lengths", 0) + tot.get("to_native_lengths", 0) + tot.get("ports", 0)
    cov["distinct_nontrivial"] = tot.get("distinct_text", 0)
    cov["rule"] = ("evaluations = text cases + (native structure, buffer length) pairs + ports. distinct_nontrivial = distinct (text, port) creation cases "
                   "(hash set per process; processes use different PRNG streams). Text: fixed edge strings, all 256 first octets x 7 tails, random IPv4, IPv6 from structured "
                   "bytes (::, ::1, mapped, compatible, link-local, zero runs) rendered in 6 styles (canonical, expanded, upper case, :: at a chosen run, dotted tail, mixed case) with optional %scope, "
                   "and byte-level mutations. Native: every length 0..sizeof+8 for from_native and every destlen 0..sizeof(sockaddr_in6)+8 for to_native in exact-size heap blocks (ASan). "
                   "Ports: all 65536 for one address per family.")
    cov["totals"] = tot
    cov["exhaustive_ports"] = True
    ctx.sample({"text": "fe80::1%lo", "port": 4242, "expect": "platform getaddrinfo(AI_NUMERICHOST) view: family 6, scope if_nametoindex(lo)"})
    ctx.sample({"text": "1.2.3.4:80", "expect": "rejected (platform rejects)"})
    ctx.sample({"native": "sockaddr_in6 random addr/flow/scope", "lengths": "0..36", "expect": "NULL below 28, equal getters from 28"})
    if tot.get("accepted_v6", 0) < 100 or tot.get("rejected", 0) < 100 or tot.get("scoped", 0) < 5 or tot.get("to_native_lengths", 0) < 100:
        raise core.Inconclusive("classes not exercised: %s" % tot)
    ctx.assumptions += ["the platform view is glibc inet_pton/inet_ntop/getaddrinfo(AI_NUMERICHOST) called from the harness; any/loopback classification and sockaddr packing are recomputed by the harness from the raw bytes",
                        "ASan red zones detect accesses just beyond exact-size heap buffers, not far out-of-bounds accesses"]

"""C06: named semaphore — multi-process histories against a reference model, blocking probes, k-exclusion stress,
crash-point enumeration (wrapper level; thorough: strace system-call level) with the documented recovery."""
import collections, os, random, time, tempfile, shutil, subprocess, concurrent.futures as cf

from .. import build, core, agents

LEVEL = "exploration"
NH = 6           # handles per agent


class Model:
    def __init__(self):
        self.names = {}      # name -> instance id | None
        self.inst = {}       # id -> value
        self.h = {}          # (agent, hid) -> dict(inst, owner, creator, name)
        self.next = 1


def check_files(ctx, m, names, what):
    for n in names:
        p = agents.sem_path(n)
        v = agents.sem_file_value(p)
        inst = m.names.get(n)
        if inst is None:
            if v is not None:
                ctx.violation("history symptom=name-survives-owner-free", "%s: %s still exists in /dev/shm after an owner freed it (%s)" % (what, p, n), None)
                return False
        else:
            if v is None:
                ctx.violation("history symptom=name-missing", "%s: %s does not exist although handles were opened and no owner freed it" % (what, p), None)
                return False
            if v != m.inst[inst]:
                ctx.violation("history symptom=counter-mismatch after=%s" % what.split()[0], "%s: counter of %s is %d, model %d" % (what, n, v, m.inst[inst]), None)
                return False
    return True


def run_history(ctx, exe, rng, idx):
    import collections
    stats = collections.Counter()
    nag = rng.choice([2, 3])
    ags = [agents.Agent(exe, name="agent%d" % i) for i in range(nag)]
    if idx % 2:
        for ag in ags:
            ag.cmd("inject 30")        # half of the histories: 30% of sem_wait/sem_open/shm_open calls return EINTR first
    base = "vfC06-%d-%d-%d" % (os.getpid(), ctx.seed, idx)
    names, shape = agents.name_family(rng, base, rng.choice([1, 2, 3]))
    ctx.coverage.setdefault("name_shapes", collections.Counter())[shape] += 1
    m = Model()
    for n in names:
        m.names[n] = None
    log = []
    ok = True
    try:
        for step in range(rng.randint(8, 30)):
            free_slots = [(a, h) for a in range(nag) for h in range(NH) if (a, h) not in m.h]
            live = list(m.h.keys())
            r = rng.random()
            what = None
            if (r < 0.30 or not live) and free_slots:
                a, h = rng.choice(free_slots)
                n = rng.choice(names)
                if rng.random() < 0.12:
                    # the process has no free descriptor: p_semaphore_new must fail and leave the name and its counter exactly as they were
                    mode = "c" if rng.random() < 0.6 else "o"
                    what = "new(%s) agent%d h%d %s init=4 with the descriptor table full" % ("CREATE" if mode == "c" else "OPEN", a, h, n[-1])
                    log.append(what)
                    ags[a].cmd("nofd 1")
                    res = ags[a].cmd("new %d %s 4 %s" % (h, n, mode))
                    ags[a].cmd("nofd 0")
                    stats["new_without_descriptors"] += 1
                    if res.startswith("ok"):
                        ctx.violation("history symptom=new-succeeded-without-descriptors", "p_semaphore_new returned a handle although sem_open failed with EMFILE; history: %s" % " | ".join(log), {"history": log})
                        ok = False
                        break
                    if not check_files(ctx, m, names, what + " ; history: " + " | ".join(log)):
                        ok = False
                        break
                    continue
                v = rng.choice([0, 1, 1, 2, 3, 5, 0, 1, 2, 32767, 32768, 100000, 2 ** 31 - 1000])      # also values above _POSIX_SEM_VALUE_MAX, up to (history length) below SEM_VALUE_MAX so that releases cannot overflow
                mode = "c" if rng.random() < 0.3 else "o"
                what = "new(%s) agent%d h%d %s init=%d" % ("CREATE" if mode == "c" else "OPEN", a, h, n[-1], v)
                log.append(what)
                res = ags[a].cmd("new %d %s %d %s" % (h, n, v, mode))
                exists = m.names[n] is not None
                if not res.startswith("ok"):
                    key = "history symptom=new-failed mode=%s name-exists=%s" % ("CREATE" if mode == "c" else "OPEN", exists)
                    ctx.violation(key, "p_semaphore_new(%s) on %s name failed: %s; history: %s" % ("CREATE" if mode == "c" else "OPEN", "an existing" if exists else "a fresh", res, " | ".join(log)), {"history": log})
                    ok = False
                    break
                stats["new_" + ("create" if mode == "c" else "open") + ("_existing" if exists else "_fresh")] += 1
                if mode == "c" or not exists:
                    i = m.next
                    m.next += 1
                    m.inst[i] = v
                    m.names[n] = i
                    m.h[(a, h)] = dict(inst=i, owner=False, creator=True, name=n)
                else:
                    m.h[(a, h)] = dict(inst=m.names[n], owner=False, creator=False, name=n)
            elif r < 0.50:
                cands = [k for k in live if m.inst[m.h[k]["inst"]] > 0]
                if not cands:
                    continue
                a, h = rng.choice(cands)
                what = "acquire agent%d h%d" % (a, h)
                log.append(what)
                try:
                    res = ags[a].cmd("acq %d" % h, timeout=20)
                except agents.AgentTimeout:
                    ctx.violation("history symptom=acquire-blocked-with-units", "acquire did not return within 20 s although the model has %d units; history: %s" % (m.inst[m.h[(a, h)]["inst"]], " | ".join(log)), {"history": log})
                    ok = False
                    break
                if res != "ok":
                    ctx.violation("history symptom=acquire-failed", "acquire returned %s; history: %s" % (res, " | ".join(log)), {"history": log})
                    ok = False
                    break
                m.inst[m.h[(a, h)]["inst"]] -= 1
                stats["acquire"] += 1
            elif r < 0.70:
                a, h = rng.choice(live)
                what = "release agent%d h%d" % (a, h)
                log.append(what)
                if ags[a].cmd("rel %d" % h) != "ok":
                    ctx.violation("history symptom=release-failed", "release failed; history: %s" % " | ".join(log), {"history": log})
                    ok = False
                    break
                m.inst[m.h[(a, h)]["inst"]] += 1
                stats["release"] += 1
            elif r < 0.78:
                a, h = rng.choice(live)
                what = "take_ownership agent%d h%d" % (a, h)
                log.append(what)
                ags[a].cmd("own %d" % h)
                m.h[(a, h)]["owner"] = True
                stats["own"] += 1
            elif r < 0.93:
                cands = [k for k in live if m.h[k]["owner"] or not m.h[k]["creator"]]
                if not cands:
                    continue
                a, h = rng.choice(cands)
                hd = m.h.pop((a, h))
                what = "free agent%d h%d (%s)" % (a, h, "owner" if hd["owner"] else "non-owner")
                log.append(what)
                ags[a].cmd("free %d" % h)
                if hd["owner"]:
                    m.names[hd["name"]] = None
                    stats["free_owner"] += 1
                else:
                    stats["free_plain"] += 1
            else:
                # blocking probe on an instance with zero units
                cands = [k for k in live if m.inst[m.h[k]["inst"]] == 0]
                if not cands:
                    continue
                a, h = rng.choice(cands)
                inst = m.h[(a, h)]["inst"]
                tag = "p%d" % step
                what = "probe-blocks agent%d h%d" % (a, h)
                log.append(what)
                ags[a].cmd("acq_bg %d %s" % (h, tag))
                early = ags[a].poll_bg(tag, 0.12)
                if early:
                    ctx.violation("history symptom=acquire-returned-without-unit", "acquire on a counter of 0 returned (%s); history: %s" % (early, " | ".join(log)), {"history": log})
                    ok = False
                    break
                others = [k for k in live if m.h[k]["inst"] == inst]
                ra, rh = rng.choice(others)
                ags[ra].cmd("rel %d" % rh)
                late = ags[a].poll_bg(tag, 20)
                if not late or "acquired" not in late:
                    ctx.violation("history symptom=release-not-seen-by-other-handle", "a release through agent%d h%d did not let the acquirer blocked on agent%d h%d proceed; history: %s" % (ra, rh, a, h, " | ".join(log)), {"history": log})
                    ok = False
                    break
                stats["block_probes"] += 1
            if what and not check_files(ctx, m, names, what + " ; history: " + " | ".join(log)):
                ok = False
                break
            stats["ops"] += 1
    except (agents.AgentDied, agents.AgentTimeout) as e:
        ctx.violation("history symptom=agent-died", "agent failure: %s; history: %s" % (str(e)[:400], " | ".join(log)), {"history": log})
        ok = False
    finally:
        for ag in ags:
            try:
                if ag.alive() and idx % 2:
                    stats_inj = int(ag.cmd("injected", timeout=5).split()[1])
                    (stats if "stats" in dir() else st)["eintr_injected"] += stats_inj
            except Exception:
                pass
            ag.kill()
        agents.sweep([agents.sem_path(n) for n in names])
    return ok, log, stats


def kexcl(ctx, exe, k, nproc, nthr, iters, stats):
    name = "vfC06-%d-%d-kx%d" % (os.getpid(), ctx.seed, k)
    shf = "/dev/shm/" + name + ".ctr"
    with open(shf, "wb") as f:
        f.write(b"\0" * 4096)
    ags = [agents.Agent(exe, name="kx%d" % i) for i in range(nproc)]
    try:
        ags[0].cmd("new 0 %s %d c" % (name, k))
        for a in ags[1:]:
            a.cmd("new 0 %s 99 o" % name)
        for a in ags:
            a.send("kexcl 0 %d %d %d %s" % (nthr, iters, k, shf))
        for a in ags:
            try:
                a.recv(timeout=120)
            except agents.AgentTimeout:
                ctx.violation("k-exclusion symptom=hang", "k-exclusion workload did not finish (k=%d, %dx%d threads)" % (k, nproc, nthr), None)
                return
        b = open(shf, "rb").read(16)
        cur, mx, over, entries = [int.from_bytes(b[i:i + 4], "little", signed=True) for i in (0, 4, 8, 12)]
        v = agents.sem_file_value(agents.sem_path(name))
        stats["kexcl_entries"] += entries
        stats["kexcl_max_seen"] = max(stats["kexcl_max_seen"], mx)
        if over:
            ctx.violation("k-exclusion symptom=more-than-k-inside", "%d times more than k=%d holders were inside (max %d)" % (over, k, mx), None)
        if entries != nproc * nthr * iters:
            ctx.violation("k-exclusion symptom=entries-lost", "entries %d expected %d" % (entries, nproc * nthr * iters), None)
        if v != k:
            ctx.violation("k-exclusion symptom=units-not-conserved", "counter is %s after all holders released, expected %d" % (v, k), None)
        ags[0].cmd("own 0")
    finally:
        for a in ags:
            a.kill()
        agents.sweep([agents.sem_path(name), shf])


def churn(ctx, exe, nproc, iters, ownpct, stats, tag):
    """processes open(OPEN, 1) / maybe take ownership / acquire / release / free the same name concurrently: every fresh counter starts at 1 and
    every process gives back what it took, so no acquire may block for good (an open racing with an owner free must not produce a counter of 0)"""
    name = "vfC06-%d-%d-churn-%s" % (os.getpid(), ctx.seed, tag)
    ags = [agents.Agent(exe, name="ch%d" % i) for i in range(nproc)]
    try:
        t0 = int(ags[0].cmd("now").split()[1]) + 20_000_000
        for a in ags:
            a.send("at %d churn %s %d %d" % (t0, name, iters, ownpct))
        for a in ags:
            try:
                r = a.recv(timeout=60)
            except agents.AgentTimeout:
                ctx.violation("churn symptom=acquire-blocked-forever", "%d processes looping open(OPEN,1)/take_ownership(%d%%)/acquire/release/free on one name: an acquire never returned although every fresh counter "
                              "starts at 1 and every holder releases (counter file value: %s)" % (nproc, ownpct, agents.sem_file_value(agents.sem_path(name))), None)
                return
            if not r.startswith("ok"):
                ctx.violation("churn symptom=acquire-failed", r, None)
                return
            stats["churn_rounds"] += int(r.split()[1])
            stats["churn_open_failures"] += int(r.split()[2])
    finally:
        for a in ags:
            a.kill()
        agents.sweep([agents.sem_path(name)])


SCRIPTS = {
    "open-use-own-free": ["new 0 {n} 2 o", "acq 0", "rel 0", "own 0", "free 0"],
    "create-second-handle": ["new 0 {n} 1 c", "acq 0", "new 1 {n} 5 o", "rel 1", "free 1", "own 0", "free 0"],
    "create-over-existing": ["new 0 {n} 3 o", "new 1 {n} 1 c", "acq 1", "own 1", "free 1", "free 0"],
}


def recover(ctx, exe, name, label, stats):
    """documented clean-up after a crash: open, take ownership, free, create again"""
    ag = agents.Agent(exe, name="recover")
    try:
        r = ag.cmd("new 0 %s 7 o" % name)
        if not r.startswith("ok"):
            ctx.violation("crash-point %s symptom=cleanup-open-failed" % label, "after the kill p_semaphore_new(OPEN) failed: %s" % r, None)
            return
        ag.cmd("own 0")
        ag.cmd("free 0")
        if os.path.exists(agents.sem_path(name)):
            ctx.violation("crash-point %s symptom=name-survives-cleanup" % label, "name still present after open / take_ownership / free", None)
            return
        r = ag.cmd("new 0 %s 2 o" % name)
        v = agents.sem_file_value(agents.sem_path(name))
        if not r.startswith("ok") or v != 2:
            ctx.violation("crash-point %s symptom=recreate-wrong" % label, "re-creation after clean-up: %s, counter %s (expected 2)" % (r, v), None)
            return
        if ag.cmd("acq 0") != "ok" or ag.cmd("acq 0") != "ok":
            ctx.violation("crash-point %s symptom=recreate-wrong" % label, "fresh semaphore of value 2 did not grant 2 units", None)
        ag.cmd("own 0")
        ag.cmd("free 0")
        stats["recoveries"] += 1
    except (agents.AgentDied, agents.AgentTimeout) as e:
        ctx.violation("crash-point %s symptom=cleanup-hang-or-crash" % label, str(e)[:300], None)
    finally:
        ag.kill()
        agents.sweep([agents.sem_path(name)])


def crash_points(ctx, exe, stats, scripts):
    work = []
    for sname in scripts:
        script = SCRIPTS[sname]
        name = "vfC06-%d-%d-cp-%s" % (os.getpid(), ctx.seed, sname)
        ag = agents.Agent(exe)
        ag.cmd("log 1")
        for line in script:
            ag.cmd(line.format(n=name))
        calls = ag.cmd("log 0").split(" ", 1)[1].split(",") if True else []
        ag.close()
        agents.sweep([agents.sem_path(name)])
        stats["crash_script_calls"][sname] = calls
        for k in range(1, len(calls) + 1):
            for phase in (0, 1):
                work.append((sname, script, k, phase, calls[k - 1]))

    def one(w):
        sname, script, k, phase, callname = w
        name = "vfC06-%d-%d-cp-%s-%d-%d" % (os.getpid(), ctx.seed, sname, k, phase)
        label = "script=%s %s=%s#%d" % (sname, "before" if phase == 0 else "after", callname, sum(1 for c in stats["crash_script_calls"][sname][:k] if c == callname))
        ag = agents.Agent(exe)
        died = False
        try:
            ag.cmd("crashat %d %d" % (k, phase))
            for line in script:
                ag.cmd(line.format(n=name), timeout=20)
        except agents.AgentDied:
            died = True
        except agents.AgentTimeout:
            ag.kill()
            return (label, "hang", name)
        rc = ag.wait_exit(5)
        if not died and rc != -9:
            ag.kill()
            return (label, "not-fired", name)
        return (label, "killed", name)

    with cf.ThreadPoolExecutor(max_workers=12) as ex:
        results = list(ex.map(one, work))
    for label, outcome, name in results:
        if outcome == "not-fired":
            stats["crash_not_fired"] += 1
            agents.sweep([agents.sem_path(name)])
            continue
        if outcome == "hang":
            ctx.violation("crash-point %s symptom=script-hang" % label, "script hung before reaching the crash point", None)
            continue
        stats["crash_points"] += 1
        recover(ctx, exe, name, label, stats)


def strace_points(ctx, plain_exe, stats):
    """system-call granularity: SIGKILL injected by strace at the k-th occurrence of each IPC-relevant system call"""
    syscalls = ["openat", "unlink", "unlinkat", "link", "linkat", "mmap", "munmap", "close", "futex", "ftruncate", "write", "fstat", "newfstatat"]
    script = SCRIPTS["create-second-handle"]
    if subprocess.run(["strace", "-V"], stdout=subprocess.PIPE, stderr=subprocess.PIPE).returncode != 0:
        raise core.Inconclusive("strace unavailable")
    tmpd = tempfile.mkdtemp(prefix="vfC06-st-")
    try:
        for sc in syscalls:
            name = "vfC06-%d-%d-st-%s" % (os.getpid(), ctx.seed, sc)
            # count occurrences from the first command on: use a marker -- count all, then subtract the start-up ones measured with an empty script
            def count(lines):
                out = os.path.join(tmpd, "cnt")
                p = subprocess.Popen(["strace", "-f", "-e", "trace=" + sc, "-o", out, plain_exe], stdin=subprocess.PIPE, stdout=subprocess.DEVNULL, stderr=subprocess.DEVNULL)
                p.communicate(("".join(l.format(n=name) + "\n" for l in lines) + "quit\n").encode(), timeout=60)
                try:
                    return sum(1 for l in open(out) if sc + "(" in l)
                except OSError:
                    return 0
            n0 = count([])
            n1 = count(script)
            agents.sweep([agents.sem_path(name)])
            for when in range(n0 + 1, n1 + 1):
                nm = "%s-%d" % (name, when)
                p = subprocess.Popen(["strace", "-f", "-e", "trace=" + sc, "-e", "inject=%s:signal=KILL:when=%d" % (sc, when), "-o", "/dev/null", plain_exe],
                                     stdin=subprocess.PIPE, stdout=subprocess.DEVNULL, stderr=subprocess.DEVNULL)
                try:
                    p.communicate(("".join(l.format(n=nm) + "\n" for l in script) + "quit\n").encode(), timeout=60)
                except subprocess.TimeoutExpired:
                    p.kill()
                    ctx.violation("crash-point strace syscall=%s symptom=script-hang" % sc, "script hung under strace injection", None)
                    continue
                stats["strace_points"] += 1
                recover(ctx, plain_exe, nm, "strace syscall=%s#%d" % (sc, when - n0), stats)
                # glibc's own sem.XXXXXX temporaries left by a kill inside sem_open are not plibsys names: sweep them
                for fn in os.listdir("/dev/shm"):
                    if fn.startswith("sem.") and len(fn) == 10 and fn[4:].isalnum() and time.time() - os.path.getmtime("/dev/shm/" + fn) < 120 and os.path.getsize("/dev/shm/" + fn) <= 32:
                        pass
    finally:
        shutil.rmtree(tmpd, ignore_errors=True)


def run(ctx):
    q = ctx.quick
    exe = build.driver("asan", "ipc_agent", ["ipc_agent.c", "wrap_sys.c"], wraps=build.WRAPS_ALL)
    plain = build.driver("plain", "ipc_agent", ["ipc_agent.c", "wrap_sys.c"], wraps=build.WRAPS_ALL)
    stats = {k: 0 for k in ("ops", "new_open_fresh", "new_open_existing", "new_create_fresh", "new_create_existing", "acquire", "release", "own", "free_owner", "free_plain", "block_probes",
                            "kexcl_entries", "kexcl_max_seen", "churn_rounds", "churn_open_failures", "crash_points", "crash_not_fired", "recoveries", "strace_points", "histories")}
    stats["crash_script_calls"] = {}
    nh = 150 if q else 8000
    rngs = [random.Random(ctx.seed * 100003 + i) for i in range(nh)]

    def hist(i):
        return run_history(ctx, exe if i % 3 else plain, rngs[i], i)

    samples = []
    with cf.ThreadPoolExecutor(max_workers=6) as ex:
        for ok, log, st in ex.map(hist, range(nh)):
            stats["histories"] += 1
            for k, v in st.items():
                stats[k] = stats.get(k, 0) + v
            if len(samples) < 3:
                samples.append(log)
    for s in samples:
        ctx.sample({"history": s})
    for (k, np_, nt, it) in ([(1, 2, 2, 300), (3, 3, 4, 200)] if q else [(1, 2, 2, 3000), (2, 3, 4, 2000), (3, 4, 8, 1000), (5, 8, 8, 500), (1, 8, 8, 300)]):
        kexcl(ctx, plain, k, np_, nt, it, stats)
    for j, (np_, it, own) in enumerate([(3, 1500, 50), (4, 1000, 100)] if q else [(2, 30000, 50), (3, 20000, 30), (4, 20000, 100), (8, 10000, 60), (16, 4000, 50)]):
        churn(ctx, plain, np_, it, own, stats, str(j))
    crash_points(ctx, exe, stats, ["open-use-own-free", "create-second-handle"] if q else list(SCRIPTS))
    if not q:
        strace_points(ctx, plain, stats)
    cov = ctx.coverage
    cov["evaluations"] = stats["ops"] + stats["crash_points"] + stats["strace_points"] + stats["kexcl_entries"]
    cov["distinct_nontrivial"] = stats["histories"] + stats["crash_points"] + stats["strace_points"]
    cov["rule"] = ("evaluations = history operations (each followed by comparison of every name's /dev/shm/sem.<key> existence and counter with the model) + crash points followed by the documented recovery + k-exclusion entries. "
                   "distinct_nontrivial = histories (distinct PRNG draws over 1-3 names, 2-3 processes, <=6 handles each, ops new(OPEN|CREATE)/acquire/release/take_ownership/free/blocking probe) + distinct crash points "
                   "(script, libc call, before/after) [+ strace (system call, occurrence) points in the thorough tier].")
    cov["stats"] = stats
    if stats["new_create_existing"] < 3 or stats["free_owner"] < 5 or stats["block_probes"] < 3 or stats["crash_points"] < 10:
        if not ctx.violations:
            raise core.Inconclusive("operation classes not exercised: %s" % {k: v for k, v in stats.items() if isinstance(v, int)})
    ctx.assumptions += ["the counter is read from glibc's named-semaphore file (low 32 bits of the first word) — exact and non-intrusive on x86-64 glibc",
                        "creator handles are freed only after take_ownership (the documentation does not define a creator's free without ownership)",
                        "SIGKILL is placed before/after libc IPC calls (wrapper) and, in the thorough tier, at system-call granularity with strace; not between machine instructions"]

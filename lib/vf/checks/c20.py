import re

from .. import build, core
from .c18 import symbolize, site

LEVEL = "exploration"


def run(ctx):
    q = ctx.quick
    jobs = []
    for variant in ("asan", "plain"):
        exe = build.driver(variant, "c20_res", ["c20_res.c", "wrap_sys.c"], wraps=build.WRAPS_ALL, extra=["-no-pie"])
        for i in range(3 if q else 8):
            jobs.append(dict(cmd=[exe, "--R", str(4 if q else 25), "--concat", str(40 if q else 1500), "--seed", str(ctx.seed * 100 + i)], variant=variant, tag="%s seed%d" % (variant, i), exe=exe,
                             san_ctx="c20", hang_is_violation=False,
                             env=(core.lsan_env(build.driver("asan", "c18_oom", ["c18_oom.c"], extra=["-no-pie"])) if variant == "asan" else None)))
    res = core.run_jobs(ctx, jobs, timeout=600 if q else 3600, workers=6)
    tot = {}
    for job, r in res:
        lines = r.json_lines()
        addrs = []
        for o in lines:
            if o.get("ev") == "leakblocks":
                for b in o["blocks"]:
                    addrs += b["bt"]
        sym = symbolize(job["exe"], addrs) if addrs else {}
        for o in lines:
            if o.get("ev") == "stats":
                for k, v in o.items():
                    if isinstance(v, int) and k != "viol":
                        tot[k] = tot.get(k, 0) + v
            elif o.get("ev") == "lsan":
                tot["lsan_checks"] = tot.get("lsan_checks", 0) + 1
                if o.get("leaks"):
                    for blk in re.split(r"\n(?=(?:Direct|Indirect) leak of )", r.err):
                        if not blk.startswith("Direct leak"):
                            continue
                        fr = re.findall(r"#\d+ 0x[0-9a-f]+ in (\S+)", blk)
                        if any(x in ("va_malloc", "va_realloc") for x in fr):
                            continue           # came through the allocator table: judged by the tracked-allocation oracle above
                        libfr = [x for x in fr if re.match(r"pp?_[a-z]", x)]
                        if not libfr:
                            continue           # allocated by the harness itself
                        ctx.violation("resource=libc-allocation symptom=leak via=%s in=%s" % (fr[1] if len(fr) > 1 else fr[0], "<".join(libfr[:2])),
                                      "%s ; obtained from the C library during %s and unreachable after every object was freed and the library shut down" % (blk.splitlines()[0], "<".join(libfr[:2])), {"report": blk[:3000]})
            elif o.get("ev") == "sample":
                ctx.sample(o)
            elif o.get("ev") == "leakblocks":
                for b in o["blocks"]:
                    st = site(b["bt"], sym)
                    ctx.violation("resource=allocation symptom=%s alloc-site=%s" % ("alive-after-shutdown" if o["scenario"] == "after-shutdown" else "leak", st),
                                  "scenario %s: block of %d bytes allocated at %s is still alive after every object was freed" % (o["scenario"], b["size"], st),
                                  {"bt": [sym.get(a) for a in b["bt"]], "scenario": o["scenario"]})
    cov = ctx.coverage
    cov["evaluations"] = tot.get("scenario_runs", 0)
    cov["distinct_nontrivial"] = tot.get("neutrality_checks", 0)
    cov["rule"] = ("evaluations = scenario executions (27 create-use-free sequences across all modules incl. failing exits: refused / timed-out connect, accept time-out, bind to a used port, missing INI file / directory / library, "
                   "IPC objects opened by several handles with equal, larger, smaller and zero sizes, joinable and detached threads, TLS keys). distinct_nontrivial = neutrality checks performed "
                   "(after each repetition of each scenario and after each random concatenation of 2-7 scenarios; every concatenation is a distinct PRNG draw): tracked allocations, /proc/self/fd, /dev/shm mappings, "
                   "the sequence's IPC names, descriptor life-cycle table; at the end of each ASan driver the sanitizer's leak checker is asked for memory the library obtained from libc directly and left unreachable.")
    cov["totals"] = tot
    if tot.get("neutrality_checks", 0) < 20 or tot.get("descriptors_tracked", 0) < 10:
        raise core.Inconclusive("too little observed")
    ctx.assumptions += ["descriptors glibc opens internally (opendir, dlopen, sem_open) are only covered by the /proc/self/fd comparison, not by the exactly-once table",
                        "anonymous mappings are not compared (malloc arenas, cached thread stacks); /dev/shm-backed mappings are compared exactly",
                        "one warm-up execution precedes each snapshot so that lazily built libc caches are not attributed to the library"]

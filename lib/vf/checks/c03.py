import glob, os

from .. import build, core

LEVEL = "exploration"


def run(ctx):
    q = ctx.quick
    sd = ctx.seed
    jobs = []
    for variant in ("asan", "tsan"):
        exe = build.driver(variant, "c03_cond", ["c03_cond.c"])
        hb = variant == "tsan"
        shapes = [(8, 16), (32, 64)] if q else [(4, 8), (8, 16), (16, 32), (32, 64), (64, 64)]
        for j, (maxt, maxw) in enumerate(shapes):
            for rep in range(2 if q else 3):
                runs = (60 if q else 200) // (2 if hb else 1)
                job = dict(cmd=[exe, "--runs", str(runs), "--items", str(3000 if q else 8000), "--wakes", str(150 if q else 500), "--maxt", str(maxt), "--maxw", str(maxw), "--seed", str(sd * 100 + j * 10 + rep)],
                           variant=variant, tag="%s maxt%d rep%d" % (variant, maxt, rep), san_ctx="cond")
                if hb:
                    job["tsan_log"] = "/tmp/vfC03-%d-%d-%d" % (sd, j, rep)
                jobs.append(job)
    res = core.run_jobs(ctx, jobs, timeout=600 if q else 3600, workers=6)
    tot = {}
    ntsan = 0
    for job, r in res:
        for o in r.json_lines():
            if o.get("ev") == "stats":
                for k, v in o.items():
                    if isinstance(v, int) and k != "viol":
                        tot[k] = tot.get(k, 0) + v
        if job.get("tsan_log"):
            for rep in core.tsan_reports(job["tsan_log"]):
                ntsan += rep["count"]
                fr = "<".join(rep["lib_frames"][:3]) if rep["lib_frames"] else "protected-data"
                ctx.violation("tsan %s frames=%s" % (rep["kind"], fr), "ThreadSanitizer: monitor data accessed without the mutex around p_cond_variable_wait (%s)" % job["tag"], {"report": rep["text"]})
            for fn in glob.glob(job["tsan_log"] + ".*"):
                os.unlink(fn)
    cov = ctx.coverage
    cov["evaluations"] = tot.get("items", 0) + tot.get("wake_cases", 0)
    cov["distinct_nontrivial"] = tot.get("buffer_runs", 0) + tot.get("wake_cases", 0)
    cov["rule"] = ("evaluations = items exchanged through condition-variable bounded buffers + wake scenarios. distinct_nontrivial = buffer runs (each a distinct draw of producers 1..33, consumers 1..33, capacity 1..4, "
                   "signal/broadcast variant) + wake scenarios (W registered waiters: one broadcast must wake all W, one signal at least one, a woken waiter must hold the mutex while a prober's trylock fails). "
                   "Every buffer run is checked offline for exactly-once delivery and per-producer order; every entry into the monitor after lock/wait checks that nobody else is inside.")
    cov["totals"] = tot
    cov["tsan_reports"] = ntsan
    ctx.sample({"buffer_run": "P=3 C=5 capacity=1, two condvars + signal; 3000 items; waits counted in totals.waits"})
    ctx.sample({"wake_case": "W=16 waiters registered under the mutex; main sets predicate, broadcasts once, counts arrivals (2 s, re-polled to 20 s)"})
    if tot.get("waits", 0) < 1000 or tot.get("wake_cases", 0) < 30:
        raise core.Inconclusive("too few waits observed: %s" % tot)
    ctx.assumptions += ["glibc's pthread_cond_* is trusted only as far as observed; the broadcast/signal arrival bound is 20 s wall clock (a correct implementation arrives in microseconds)",
                        "a run with no progress for 45 s is reported by the driver's watchdog as a lost wake-up"]

import glob, os

from .. import build, core

LEVEL = "exploration"


def run(ctx):
    q = ctx.quick
    sd = ctx.seed
    jobs = []
    for variant in ("asan", "plain", "tsan"):
        hb = variant == "tsan"
        exe = build.driver(variant, "c05_thread", ["c05_thread.c"], wraps=["pthread_create", "pthread_attr_destroy"], defines=(["HB_MODE"] if hb else []))
        for j, alive in enumerate([4, 16, 64] if q else [2, 4, 8, 16, 32, 64, 128]):
            for rep in range(1 if q else 3):
                n = (1200 if q else 12000) // (3 if hb else 1)
                cmd = [exe, "--threads", str(n), "--alive", str(alive), "--races", str(120 if q else 2500), "--foreign", str(60 if q else 1000), "--unref-races", str(600 if q else 20000), "--tls-histories", str(150 if q else 800), "--seed", str(sd * 100 + j * 10 + rep)]
                if rep % 2 == 1:
                    cmd.append("--no-delays")
                job = dict(cmd=cmd, variant=variant, tag="%s alive%d rep%d" % (variant, alive, rep), san_ctx="thread", hang_is_violation=True, hang_key="symptom=hang (join or thread start never completed)")
                if hb:
                    job["tsan_log"] = "/tmp/vfC05-%d-%d-%d" % (sd, j, rep)
                jobs.append(job)
    res = core.run_jobs(ctx, jobs, timeout=300 if q else 3000, workers=6)
    tot = {}
    ntsan = 0
    for job, r in res:
        for o in r.json_lines():
            if o.get("ev") == "stats":
                for k, v in o.items():
                    if isinstance(v, int) and k != "viol":
                        tot[k] = tot.get(k, 0) + v
        if job.get("tsan_log"):
            for rep in core.tsan_reports(job["tsan_log"]):
                ntsan += rep["count"]
                fr = "<".join(rep["lib_frames"][:3]) if rep["lib_frames"] else "thread-payload"
                ctx.violation("tsan %s frames=%s" % (rep["kind"], fr), "ThreadSanitizer report in thread/TLS code or on memory published through join (%s)" % job["tag"], {"report": rep["text"]})
            for fn in glob.glob(job["tsan_log"] + ".*"):
                os.unlink(fn)
    cov = ctx.coverage
    cov["evaluations"] = tot.get("threads", 0) + tot.get("first_use_races", 0) + tot.get("foreign_threads", 0) + tot.get("tls_history_threads", 0)
    cov["distinct_nontrivial"] = tot.get("handles_freed_by_harness_unref", 0) + tot.get("handles_freed_at_thread_exit", 0) + tot.get("first_use_races", 0) + tot.get("tls_history_threads", 0)
    cov["rule"] = ("evaluations = threads created (35% detached, random exit codes incl. INT_MIN/INT_MAX, p_uthread_exit or plain return, 0-2 extra ref/unref pairs, join before or after unrefs) + TLS first-use races + foreign threads + threads running a random TLS history (48 set/replace/get operations with fresh values or NULL over 4 keys, two of them without notifier, in joinable, detached and foreign threads, checked against a per-thread slot model: notifier runs exactly once per value replaced or left at exit, never for set_local, never with NULL). "
                   "distinct_nontrivial = handle blocks whose free event was observed and checked against the shadow reference count and finished flag (classified by who performed the last unref) + first-use races; "
                   "every thread has a distinct PRNG draw of (joinable, code, work time, extra refs, unref order, injected start/creator delay).")
    cov["totals"] = tot
    cov["tsan_reports"] = ntsan
    ctx.sample({"thread": "detached, creator unrefs immediately, thread start delayed 1.3 ms by the pthread_create trampoline -> handle must be freed at thread exit, not before"})
    ctx.sample({"thread": "joinable, p_uthread_exit(INT_MIN), 2 extra refs, join, payload check, unrefs -> handle freed by the harness's last unref"})
    if tot.get("handles_freed_by_harness_unref", 0) < 20 or tot.get("handles_freed_at_thread_exit", 0) < 20:
        raise core.Inconclusive("both release orders were not observed: %s" % tot)
    if tot.get("tls_replace_on_empty_slot", 0) < 20 or tot.get("tls_replace_with_null", 0) < 20:
        raise core.Inconclusive("TLS histories did not reach replace on an empty slot / replace with NULL: %s" % tot)
    if tot.get("delayed_thread_starts", 0) < 10:
        raise core.Inconclusive("delay injection did not fire")
    ctx.assumptions += ["the tracking allocator (its lock orders alloc/free pairs) is not installed in TSan builds; exactly-once accounting runs in the asan/plain builds of the same workload",
                        "one TSan suppression (lib/vf/tsan.supp): failed compare-and-exchange recorded as a write in pp_uthread_get_tls_key (tool artefact)"]

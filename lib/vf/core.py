"""Check context: seeds, violations -> known-findings matching, evidence writer, subprocess helpers."""
import json, os, re, signal, subprocess, sys, time, random, threading

from . import build

VERIF = build.VERIF
EVID = os.environ.get("VERIF_EVIDENCE_DIR") or os.path.join(VERIF, "evidence")      # redirected while trying seeded changes
REPLAYS = os.environ.get("VERIF_REPLAY_DIR") or os.path.join(VERIF, "replays")
KNOWN = os.path.join(VERIF, "KNOWN_FINDINGS.txt")

SAN_ENV = {
    "ASAN_OPTIONS": "abort_on_error=1:detect_leaks=0:allocator_may_return_null=1:handle_abort=1:detect_stack_use_after_return=0",
    "UBSAN_OPTIONS": "print_stacktrace=1:halt_on_error=1",
}


class Inconclusive(Exception):
    """Harness could not produce a verdict (exit 2)."""


def load_known():
    known = []
    if os.path.exists(KNOWN):
        for line in open(KNOWN):
            line = line.strip()
            m = re.match(r"known:\s+property=(\S+)\s+key=(\S+)\s+(.*)$", line)
            if m:
                known.append((m.group(1), m.group(2), m.group(3)))
    return known


class Ctx:
    def __init__(self, pid, tier, seed, level="exploration"):
        self.pid = pid
        self.tier = tier
        self.seed = seed
        self.level = level
        self.t0 = time.time()
        self.rng = random.Random(seed * 1000003 + int(pid[1:]))
        self.violations = []      # (key, what, replay)
        self.known_hits = {}      # key -> what
        self.coverage = {"evaluations": 0, "distinct_nontrivial": 0, "rule": "", "samples": []}
        self.assumptions = []
        self._known = [(p, k, w) for (p, k, w) in load_known() if p == pid]
        self._lock = threading.Lock()
        self._nrep = 0
        self.notes = []

    @property
    def quick(self):
        return self.tier == "quick"

    def pick(self, q, t):
        return q if self.quick else t

    # ---- violations -------------------------------------------------------------------------
    def violation(self, key, what, witness=None):
        """Report one violation with canonical key; matched against KNOWN_FINDINGS.txt."""
        key = re.sub(r"\s+", "_", key.strip())
        with self._lock:
            for (_, k, w) in self._known:
                if k == key:
                    if key not in self.known_hits:
                        self.known_hits[key] = w
                        print("KNOWN-FINDING: property=%s %s" % (self.pid, w), flush=True)
                    return False
            for (k, _, _) in self.violations:
                if k == key:
                    return True    # already reported with this key
            os.makedirs(REPLAYS, exist_ok=True)
            self._nrep += 1
            path = os.path.join(REPLAYS, "%s-%s-%d.json" % (self.pid, self.tier, self._nrep))
            with open(path, "w") as f:
                json.dump({"property": self.pid, "key": key, "what": what, "seed": self.seed,
                           "tier": self.tier, "witness": witness}, f, indent=1, default=str)
            self.violations.append((key, what, path))
            print("VIOLATION property=%s replay=%s" % (self.pid, path), flush=True)
            print("  key=%s :: %s" % (key, what), flush=True)
            return True

    # ---- evidence ---------------------------------------------------------------------------
    def add_eval(self, n=1):
        self.coverage["evaluations"] += n

    def sample(self, s, cap=12):
        if len(self.coverage["samples"]) < cap:
            self.coverage["samples"].append(s)

    def write_evidence(self):
        os.makedirs(EVID, exist_ok=True)
        ev = {
            "property_id": self.pid, "tier": self.tier, "seed": self.seed, "level": self.level,
            "coverage": self.coverage, "assumptions": self.assumptions,
            "wall_s": round(time.time() - self.t0, 2), "violations": len(self.violations),
            "known_findings_seen": sorted(self.known_hits),
            "violation_keys": [k for (k, _, _) in self.violations],
            "notes": self.notes,
        }
        tmp = os.path.join(EVID, self.pid + ".json.tmp")
        with open(tmp, "w") as f:
            json.dump(ev, f, indent=1, default=str)
        os.replace(tmp, os.path.join(EVID, self.pid + ".json"))


# ---- subprocess helpers -------------------------------------------------------------------------

def env_for(variant, extra=None, tsan_log=None):
    e = dict(os.environ)
    e.update(SAN_ENV)
    if variant.startswith("tsan"):
        e["TSAN_OPTIONS"] = "halt_on_error=0:exitcode=0:second_deadlock_stack=1:history_size=4:report_signal_unsafe=0:suppressions=" + os.path.join(VERIF, "lib", "vf", "tsan.supp") + (":log_path=" + tsan_log if tsan_log else "")
    if extra:
        e.update(extra)
    return e


class Result:
    def __init__(self, rc, out, err, timed_out, wall):
        self.rc, self.out, self.err, self.timed_out, self.wall = rc, out, err, timed_out, wall

    @property
    def signal(self):
        return -self.rc if self.rc is not None and self.rc < 0 else 0

    def json_lines(self):
        res = []
        for line in self.out.splitlines():
            line = line.strip()
            if line.startswith("{"):
                try:
                    res.append(json.loads(line))
                except ValueError:
                    pass
        return res

    def san_report(self):
        """Return a short canonical description of an ASan/UBSan/TSan report on stderr, or None."""
        return parse_san(self.err)


def run(cmd, timeout, env=None, stdin=None, cwd=None):
    t = time.time()
    p = subprocess.Popen(cmd, stdin=subprocess.PIPE if stdin is not None else subprocess.DEVNULL,
                         stdout=subprocess.PIPE, stderr=subprocess.PIPE, env=env, cwd=cwd,
                         start_new_session=True)
    try:
        out, err = p.communicate(stdin.encode() if isinstance(stdin, str) else stdin, timeout=timeout)
        to = False
    except subprocess.TimeoutExpired:
        try:
            os.killpg(p.pid, signal.SIGKILL)
        except OSError:
            pass
        out, err = p.communicate()
        to = True
    return Result(p.returncode, out.decode("utf-8", "replace"), err.decode("utf-8", "replace"), to, time.time() - t)


_FRAME = re.compile(r"#\d+\s+0x[0-9a-f]+\s+in\s+(\S+)\s+(\S+)")
_TSAN_FRAME = re.compile(r"#\d+\s+(\S+)\s+(\S+)\s+\(")      # TSan: "#0 func file:line (module+0x...)"


def parse_san(err):
    """Canonicalise a sanitizer report: (kind, [plibsys frames innermost-first])."""
    if not err:
        return None
    kind = None
    m = re.search(r"ERROR: AddressSanitizer: (\S+)", err)
    if m:
        kind = "asan:" + m.group(1)
    if not kind:
        m = re.search(r"runtime error: ([^\n]+)", err)
        if m:
            msg = m.group(1)
            msg = re.sub(r"-?\d+", "N", msg)
            kind = "ubsan:" + re.sub(r"[^A-Za-z]+", "-", msg)[:60].strip("-")
            loc = re.search(r"(\S+\.[ch]):\d+:\d+: runtime error", err)
            if loc:
                kind += "@" + os.path.basename(loc.group(1))
    if not kind:
        m = re.search(r"WARNING: ThreadSanitizer: ([^\(\n]+)", err)
        if m:
            kind = "tsan:" + m.group(1).strip().replace(" ", "-")
    if not kind:
        return None
    frames = []
    for fm in _FRAME.finditer(err):
        fn, loc = fm.group(1), fm.group(2)
        if "/src/p" in loc or fn.startswith("p_") or fn.startswith("pp_"):
            if fn not in frames:
                frames.append(fn)
        if len(frames) >= 3:
            break
    return kind, frames


def tsan_reports(logprefix):
    """Parse TSan log files (log_path=prefix -> prefix.<pid>) into de-duplicated reports."""
    import glob
    reps = {}
    for fn in glob.glob(logprefix + ".*"):
        try:
            txt = open(fn, errors="replace").read()
        except OSError:
            continue
        for block in txt.split("=================="):
            if "WARNING: ThreadSanitizer" not in block:
                continue
            m = re.search(r"WARNING: ThreadSanitizer: ([^\(\n]+)", block)
            kind = m.group(1).strip().replace(" ", "-")
            fr = []
            libfr = []
            for fm in _TSAN_FRAME.finditer(block):
                fn_, loc = fm.group(1), fm.group(2)
                loc = re.sub(r":\d+(:\d+)?$", "", loc)
                fr.append(fn_)
                if "/repo/src/" in loc or re.match(r"pp?_[a-z]", fn_):
                    if fn_ not in libfr:
                        libfr.append(fn_)
            key = (kind, tuple(sorted(libfr[:4])))
            reps.setdefault(key, {"count": 0, "kind": kind, "lib_frames": libfr[:6], "text": block[:3000]})
            reps[key]["count"] += 1
    return list(reps.values())


def sha1_key(name, suffix):
    import hashlib
    return hashlib.sha1((name + suffix).encode()).hexdigest()


# ---- parallel driver jobs -------------------------------------------------------------------------

def run_jobs(ctx, jobs, timeout, workers=16, san_prop=None, on_result=None):
    """jobs: list of dict(cmd=[...], variant=..., tag=..., env=...).  Runs them in a thread pool.
    For each job returns (job, Result).  JSON `viol` lines whose prop == ctx.pid are reported;
    sanitizer aborts / crashes / time-outs are reported as violations (time-out: re-run once first,
    then harness failure unless job['hang_is_violation'])."""
    import concurrent.futures as cf
    results = []

    def one(job):
        if job.get("tsan_log"):
            import glob
            for fn in glob.glob(job["tsan_log"] + ".*"):
                try:
                    os.unlink(fn)
                except OSError:
                    pass
        env = env_for(job.get("variant", "asan"), job.get("env"), job.get("tsan_log"))
        r = run(job["cmd"], job.get("timeout", timeout), env=env, stdin=job.get("stdin"))
        if r.timed_out:
            r2 = run(job["cmd"], job.get("timeout", timeout) * 2, env=env, stdin=job.get("stdin"))
            r2.retried = True
            r = r2
        return job, r

    with cf.ThreadPoolExecutor(max_workers=workers) as ex:
        for job, r in ex.map(one, jobs):
            results.append((job, r))
            classify(ctx, job, r)
            if on_result:
                on_result(job, r)
    return results


def classify(ctx, job, r):
    tag = job.get("tag", " ".join(job["cmd"][1:]))
    for o in r.json_lines():
        if o.get("ev") == "viol" and o.get("prop") == ctx.pid:
            ctx.violation(o["key"], o["what"], {"cmd": job["cmd"], "line": o})
    if r.timed_out:
        if job.get("hang_is_violation"):
            ctx.violation(job.get("hang_key", "hang " + tag), "workload did not terminate within watchdog (twice): " + tag,
                          {"cmd": job["cmd"], "stdout_tail": r.out[-2000:], "stderr_tail": r.err[-2000:]})
        else:
            raise Inconclusive("watchdog expired twice for %s" % tag)
        return
    if r.rc != 0:
        san = r.san_report()
        if san:
            kind, frames = san
            key = "sanitizer %s frames=%s" % (kind, "<".join(frames) if frames else "?")
            if job.get("san_ctx"):
                key += " ctx=" + job["san_ctx"]
            ctx.violation(key, "sanitizer report in %s" % tag, {"cmd": job["cmd"], "stderr": r.err[-6000:]})
        elif r.rc < 0:
            ctx.violation("crash signal=%d ctx=%s" % (-r.rc, job.get("san_ctx", job["cmd"][0].split("/")[-1])),
                          "driver killed by signal %d: %s" % (-r.rc, tag), {"cmd": job["cmd"], "stderr": r.err[-4000:], "stdout_tail": r.out[-2000:]})
        else:
            raise Inconclusive("driver exit %d: %s\n%s" % (r.rc, tag, r.err[-1500:]))


_LSAN = {}


def lsan_env(exe):
    """Extra environment that switches on the LeakSanitizer queries of an ASan driver, or {} when the leak checker does not work here
    (it needs ptrace on its own process; a probe that leaks on purpose must be reported and the process must survive)."""
    if "ok" not in _LSAN:
        env = env_for("asan")
        env["ASAN_OPTIONS"] = env["ASAN_OPTIONS"].replace("detect_leaks=0", "detect_leaks=1")
        env["VH_LSAN"] = "1"
        try:
            r = run([exe, "--lsan-probe"], 120, env=env)
            found = [o.get("found") for o in r.json_lines() if o.get("ev") == "lsan-probe"]
            _LSAN["ok"] = bool(r.rc == 0 and found and found[0] == 1)
        except Exception:
            _LSAN["ok"] = False
        _LSAN["env"] = {"VH_LSAN": "1", "ASAN_OPTIONS": env["ASAN_OPTIONS"]}
    return dict(_LSAN["env"]) if _LSAN["ok"] else {}

"""Independent GOST R 34.11-94 (CryptoPro S-box, id-GostR3411-94-CryptoProParamSet) in pure Python.

Written from the standard's description (RFC 5831 / GOST R 34.11-94), not from plibsys.  self_test() checks the
published vectors; the C11 check refuses to use this oracle unless self_test() passes.
256-bit quantities are Python ints interpreted little-endian (byte 0 of a block = least significant byte).
"""

SBOX = [
    [10, 4, 5, 6, 8, 1, 3, 7, 13, 12, 14, 0, 9, 2, 11, 15],
    [5, 15, 4, 0, 2, 13, 11, 9, 1, 7, 6, 3, 12, 14, 10, 8],
    [7, 15, 12, 14, 9, 4, 1, 0, 3, 11, 5, 2, 6, 10, 8, 13],
    [4, 10, 7, 12, 0, 15, 2, 8, 14, 1, 6, 5, 13, 11, 9, 3],
    [7, 6, 4, 11, 9, 12, 2, 10, 1, 8, 0, 14, 15, 13, 3, 5],
    [7, 6, 2, 4, 13, 9, 15, 0, 10, 1, 5, 11, 8, 14, 12, 3],
    [13, 14, 4, 1, 7, 0, 5, 10, 3, 12, 8, 15, 6, 2, 9, 11],
    [1, 3, 10, 9, 5, 11, 4, 15, 8, 6, 7, 14, 13, 0, 2, 12],
]

# combined 8-bit tables for speed
_T = []
for _i in range(4):
    _T.append([(SBOX[2 * _i + 1][b >> 4] << 4) | SBOX[2 * _i][b & 15] for b in range(256)])

M32 = 0xFFFFFFFF
M256 = (1 << 256) - 1
C3 = 0xff00ffff000000ffff0000ff00ffff0000ff00ff00ff00ffff00ff00ff00ff00


def _f(x):
    y = _T[0][x & 255] | (_T[1][(x >> 8) & 255] << 8) | (_T[2][(x >> 16) & 255] << 16) | (_T[3][(x >> 24) & 255] << 24)
    return ((y << 11) | (y >> 21)) & M32


def _encrypt(key256, block64):
    """GOST 28147-89 ECB encryption of one 64-bit block; key words k0..k7 little-endian from key256."""
    k = [(key256 >> (32 * i)) & M32 for i in range(8)]
    n1 = block64 & M32
    n2 = (block64 >> 32) & M32
    for r in range(24):
        n1, n2 = n2 ^ _f((n1 + k[r % 8]) & M32), n1
    for r in range(8):
        n1, n2 = n2 ^ _f((n1 + k[7 - r]) & M32), n1
    # final swap undone
    return (n1 << 32) | n2


def _A(y):
    y1 = y & 0xFFFFFFFFFFFFFFFF
    y2 = (y >> 64) & 0xFFFFFFFFFFFFFFFF
    return (y >> 64) | ((y1 ^ y2) << 192)


def _P(y):
    b = y.to_bytes(32, "little")
    out = bytearray(32)
    for i in range(4):
        for k in range(1, 9):
            # phi(i + 1 + 4(k-1)) = 8i + k   (1-based byte numbering, byte 1 = least significant)
            out[i + 4 * (k - 1)] = b[8 * i + k - 1]
    return int.from_bytes(out, "little")


def _psi(y):
    w = y & 0xFFFF
    t = (w ^ (y >> 16) ^ (y >> 32) ^ (y >> 48) ^ (y >> 192) ^ (y >> 240)) & 0xFFFF
    return (y >> 16) | (t << 240)


def _compress(h, m):
    u, v = h, m
    w = u ^ v
    keys = [_P(w)]
    for i in range(2, 5):
        u = _A(u) ^ (C3 if i == 3 else 0)
        v = _A(_A(v))
        w = u ^ v
        keys.append(_P(w))
    s = 0
    for i in range(4):
        hi = (h >> (64 * i)) & 0xFFFFFFFFFFFFFFFF
        s |= _encrypt(keys[i], hi) << (64 * i)
    x = s
    for _ in range(12):
        x = _psi(x)
    x = _psi(x ^ m)
    x ^= h
    for _ in range(61):
        x = _psi(x)
    return x


def _encrypt_block(key256, block64):
    return _encrypt(key256, block64)


def digest(data):
    h = 0
    total = 0
    n = len(data)
    nbits = 0
    mv = memoryview(data)
    pos = 0
    while n - pos >= 32:
        m = int.from_bytes(mv[pos:pos + 32], "little")
        h = _compress(h, m)
        total = (total + m) & M256
        nbits += 256
        pos += 32
    if n - pos > 0:
        m = int.from_bytes(bytes(mv[pos:]) + b"\0" * (32 - (n - pos)), "little")
        h = _compress(h, m)
        total = (total + m) & M256
        nbits += 8 * (n - pos)
    h = _compress(h, nbits & M256)
    h = _compress(h, total)
    return h.to_bytes(32, "little")


def hexdigest(data):
    return digest(data).hex()


VECTORS = [
    (b"", "981e5f3ca30c841487830f84fb433e13ac1101569b9c13584ac483234cd656c0"),
    (b"a", "e74c52dd282183bf37af0079c9f78055715a103f17e3133ceff1aacf2f403011"),
    (b"abc", "b285056dbf18d7392d7677369524dd14747459ed8143997e163b2986f92fd42c"),
    (b"message digest", "bc6041dd2aa401ebfa6e9886734174febdb4729aa972d60f549ac39b29721ba0"),
    (b"The quick brown fox jumps over the lazy dog", "9004294a361a508c586fe53d1f1b02746765e71b765472786e4770d565830a76"),
    (b"This is message, length=32 bytes", "2cefc2f7b7bdc514e18ea57fa74ff357e7fa17d652c75f69cb1be7893ede48eb"),
    (b"Suppose the original message has length = 50 bytes", "c3730c5cbccacf915ac292676f21e8bd4ef75331d9405e5f1a61dc3130a65011"),
    (b"U" * 128, "1c4ac7614691bbf427fa2316216be8f10d92edfd37cd1027514c1008f649c4e8"),
]


def self_test():
    bad = [(m, hexdigest(m), e) for (m, e) in VECTORS if hexdigest(m) != e]
    return bad


if __name__ == "__main__":
    b = self_test()
    for m, g, e in b:
        print("MISMATCH", m[:20], g, e)
    print("gost_ref self-test:", "ok" if not b else "%d mismatches" % len(b))
